package main

import (
	"fmt"
	"go/token"
	"go/types"
	"strings"

	"golang.org/x/tools/go/ssa"
)

// ---- shared recognisers for the commit / WriteTxn protocol ----

const (
	nAtomicStore = "sync/atomic.(Pointer).Store"
	nAtomicLoad  = "sync/atomic.(Pointer).Load"
	nMutexLock   = "sync.(Mutex).Lock"
	nMutexUnlock = "sync.(Mutex).Unlock"
	nSmusLock    = "internal.(SortableMutexes).Lock"
	nSmusUnlock  = "internal.(SortableMutexes).Unlock"
	nClone       = "slices.Clone"
)

// isFieldAddrOf: v is &x.field where x's struct type is named typeName.
func isFieldAddrOf(v ssa.Value, typeName, field string) bool {
	fa, ok := v.(*ssa.FieldAddr)
	if !ok {
		return false
	}
	tn, f, ok := fieldOf(fa)
	return ok && tn == typeName && f == field
}

// loadOfField: v is *(&x.field) for the named struct/field; returns x.
func loadOfField(v ssa.Value, typeName, field string) (ssa.Value, bool) {
	addr, ok := isLoad(v)
	if !ok {
		return nil, false
	}
	if !isFieldAddrOf(addr, typeName, field) {
		return nil, false
	}
	return addr.(*ssa.FieldAddr).X, true
}

func (c *Ctx) callsOnField(fn *ssa.Function, callee, typeName, field string) []ssa.CallInstruction {
	var out []ssa.CallInstruction
	for _, call := range c.callsNamed(fn, callee) {
		args := call.Common().Args
		if len(args) > 0 && isFieldAddrOf(args[0], typeName, field) {
			out = append(out, call)
		}
	}
	return out
}

// deferredCallsOnField finds `defer x.f.M()`.
func (c *Ctx) deferredOnField(fn *ssa.Function, callee, typeName, field string) []*ssa.Defer {
	var out []*ssa.Defer
	for _, call := range c.callsOnField(fn, callee, typeName, field) {
		if d, ok := call.(*ssa.Defer); ok {
			out = append(out, d)
		}
	}
	return out
}

// heldAt: lock class (typeName.field mutex) is must-held at instruction `at`:
// some non-deferred Lock dominates `at` and no non-deferred Unlock lies on a
// path between that Lock and `at`.
func (c *Ctx) muHeldAt(fn *ssa.Function, typeName, field string, at ssa.Instruction) (ssa.Instruction, bool) {
	locks := c.callsOnField(fn, nMutexLock, typeName, field)
	unlocks := c.callsOnField(fn, nMutexUnlock, typeName, field)
	for _, l := range locks {
		if _, isDefer := l.(*ssa.Defer); isDefer {
			continue
		}
		if !instrDominates(l, at) {
			continue
		}
		ok := true
		for _, u := range unlocks {
			if _, isDefer := u.(*ssa.Defer); isDefer {
				continue
			}
			if instrReaches(l, u) && instrReaches(u, at) {
				ok = false
			}
		}
		if ok {
			return l, true
		}
	}
	return nil, false
}

// allocOf returns the Alloc behind a pointer value (the value itself).
func allocOf(v ssa.Value) *ssa.Alloc {
	a, _ := v.(*ssa.Alloc)
	return a
}

// storesTo returns all Store instructions in fn whose address is exactly v.
func storesTo(fn *ssa.Function, addr ssa.Value) []*ssa.Store {
	var out []*ssa.Store
	for _, ia := range allInstrs(fn) {
		if st, ok := ia.In.(*ssa.Store); ok && st.Addr == addr {
			out = append(out, st)
		}
	}
	return out
}

func init() {
	register(&Rule{
		ID: "ROOT-CS", Props: []string{"C02", "C05"}, Floor: 7,
		Doc: "dbState.root is stored only by New, registerTable and Commit; in the latter two inside a dbState.mu region that also contains the root Load being merged; Commit performs exactly one Store, not in a loop, dominating its non-nil return",
		Run: ruleRootCS,
	})
	register(&Rule{
		ID: "COMMIT-ORDER", Props: []string{"C02", "C05", "C06", "C19"}, Floor: 6,
		Doc: "in Commit: index commits happen before the root lock; notify() and the init-channel closes are dominated by the root Store and the root Unlock; the table locks are released after Store and after the notify loop; the returned snapshot is the stored slice",
		Run: ruleCommitOrder,
	})
	register(&Rule{
		ID: "LOAD-AFTER-LOCK", Props: []string{"C05", "C01", "C07"}, Floor: 3,
		Doc: "in DB.WriteTxn the root Load that is kept as oldRoot and cloned into tableEntries is dominated by the table-lock acquisition",
		Run: ruleLoadAfterLock,
	})
	register(&Rule{
		ID: "ROOT-MERGE", Props: []string{"C05"}, Floor: 2,
		Doc: "in Commit, exactly on the edge where an entry is not locked, the element of the root loaded under the mutex is stored into the same position of the root being published, and no other element is written",
		Run: ruleRootMerge,
	})
	register(&Rule{
		ID: "ROOT-LEN", Props: []string{"C05"}, Floor: 2,
		Doc: "every root published under dbState.mu has a slice-level (length carrying) dependence on the root loaded inside the critical section",
		Run: ruleRootLen,
	})
	register(&Rule{
		ID: "LOCK-SITES", Props: []string{"C05", "C10"}, Floor: 5,
		Doc: "SortableMutexes.Lock is called only from DB.WriteTxn, SortableMutexes.Unlock only from Commit and Abort; single SortableMutex Lock/Unlock only inside those two bulk methods",
		Run: ruleLockSites,
	})
}

// rootStores: every publication of dbState.root (Store, and also Swap /
// CompareAndSwap, which publish just the same).
func (c *Ctx) rootStores(fn *ssa.Function) []ssa.CallInstruction {
	out := c.callsOnField(fn, nAtomicStore, "dbState", "root")
	out = append(out, c.callsOnField(fn, "sync/atomic.(Pointer).Swap", "dbState", "root")...)
	out = append(out, c.callsOnField(fn, "sync/atomic.(Pointer).CompareAndSwap", "dbState", "root")...)
	return out
}

// publishedArg: the new root pointer passed to Store/Swap/CompareAndSwap.
func publishedArg(call ssa.CallInstruction) ssa.Value {
	a := call.Common().Args
	return a[len(a)-1]
}
func (c *Ctx) rootLoads(fn *ssa.Function) []ssa.CallInstruction {
	return c.callsOnField(fn, nAtomicLoad, "dbState", "root")
}

func ruleRootCS(c *Ctx, r *Reporter) {
	allowed := map[string]bool{"statedb.New": true, "statedb.(DB).registerTable": true, "statedb.(writeTxnHandle).Commit": true}
	found := map[string]bool{}
	for _, fn := range c.Funcs {
		for i, s := range c.rootStores(fn) {
			name := c.fnName(fn)
			key := fmt.Sprintf("%s|root.Store#%d", name, i+1)
			pos := c.posStr(instrPos(s))
			if !allowed[name] {
				r.bad(key, pos, "dbState.root is stored outside New/registerTable/Commit: a root published here bypasses the commit protocol")
				continue
			}
			found[name] = true
			if name == "statedb.New" {
				r.ok(key, pos, "initial root of a fresh database (not yet shared)")
				continue
			}
			// inside the mutex region
			if l, ok := c.muHeldAt(fn, "dbState", "mu", s); ok {
				r.ok(key+"|in-region", pos, "Store is dominated by dbState.mu.Lock at "+c.posStr(instrPos(l))+" with no Unlock in between")
			} else {
				r.bad(key+"|in-region", pos, "root Store is not inside a dbState.mu critical section: two commits can interleave and one root overwrites the other")
			}
			// the load merged is in the same region
			loads := c.rootLoads(fn)
			if len(loads) == 0 {
				r.bad(key+"|load-in-region", pos, "no root Load in the function that stores the root: the published root cannot contain concurrent commits")
			}
			for j, ld := range loads {
				k := fmt.Sprintf("%s|load#%d-in-region", key, j+1)
				if _, ok := c.muHeldAt(fn, "dbState", "mu", ld); ok && instrDominates(ld, s) {
					r.ok(k, c.posStr(instrPos(ld)), "root Load is inside the same dbState.mu region and precedes the Store")
				} else {
					r.bad(k, c.posStr(instrPos(ld)), "root Load used by a publishing function is outside the dbState.mu region (or after the Store): a concurrent commit between Load and Store is lost")
				}
			}
		}
	}
	for n := range allowed {
		if !found[n] {
			r.anchorMissing("root Store in " + n)
		}
	}
	// Commit: exactly one store, not in a loop, dominating the non-nil return
	commit := c.Func("statedb", "writeTxnHandle", "Commit")
	if commit == nil {
		r.anchorMissing("statedb.(writeTxnHandle).Commit")
		return
	}
	stores := c.rootStores(commit)
	if len(stores) != 1 {
		r.bad("statedb.(writeTxnHandle).Commit|single-store", c.posStr(commit.Pos()), fmt.Sprintf("Commit contains %d root Stores, expected exactly one (all writes of a transaction must become visible at a single instant)", len(stores)))
		return
	}
	s := stores[0]
	if blockReaches(s.Block(), s.Block()) {
		r.bad("statedb.(writeTxnHandle).Commit|single-store", c.posStr(instrPos(s)), "the root Store sits in a loop: tables would be published one at a time")
	} else {
		r.ok("statedb.(writeTxnHandle).Commit|single-store", c.posStr(instrPos(s)), "one root Store, not in a loop")
	}
	for _, ia := range allInstrs(commit) {
		ret, ok := ia.In.(*ssa.Return)
		if !ok || len(ret.Results) != 1 {
			continue
		}
		if isNilConst(ret.Results[0]) {
			continue
		}
		if instrDominates(s, ret) {
			r.ok("statedb.(writeTxnHandle).Commit|store-before-return", c.posStr(instrPos(ret)), "every non-nil return is dominated by the root Store")
		} else {
			r.bad("statedb.(writeTxnHandle).Commit|store-before-return", c.posStr(instrPos(ret)), "a path returns a snapshot from Commit without having stored the root")
		}
	}
}

func ruleCommitOrder(c *Ctx, r *Reporter) {
	fn := c.Func("statedb", "writeTxnHandle", "Commit")
	if fn == nil {
		r.anchorMissing("statedb.(writeTxnHandle).Commit")
		return
	}
	name := c.fnName(fn)
	stores := c.rootStores(fn)
	locks := c.callsOnField(fn, nMutexLock, "dbState", "mu")
	unlocks := c.callsOnField(fn, nMutexUnlock, "dbState", "mu")
	if len(stores) != 1 || len(locks) != 1 || len(unlocks) != 1 {
		r.undecided(name+"|shape", c.posStr(fn.Pos()), fmt.Sprintf("expected one root Store, one dbState.mu.Lock and one Unlock in Commit, found %d/%d/%d", len(stores), len(locks), len(unlocks)))
		return
	}
	S, L, U := stores[0], locks[0], unlocks[0]

	// (1) index commits before the root lock
	commits := c.callsNamed(fn, "iface:statedb.tableIndex.commit")
	if len(commits) == 0 {
		r.anchorMissing("idx.commit() call in Commit")
	}
	for i, cm := range commits {
		key := fmt.Sprintf("%s|commit#%d<lock", name, i+1)
		if instrReaches(L, cm) {
			r.badP([]string{"C02", "C10"}, key, c.posStr(instrPos(cm)), "an index commit can execute after dbState.mu.Lock: index trees are committed while holding the root mutex (or after the root was published)")
		} else if !instrReaches(cm, S) {
			r.badP([]string{"C02"}, key, c.posStr(instrPos(cm)), "an index commit does not precede the root Store: the published entry would hold an uncommitted index transaction")
		} else {
			r.okP([]string{"C02", "C10"}, key, c.posStr(instrPos(cm)), "index commit precedes dbState.mu.Lock and the root Store")
		}
	}

	// (2) notify after store and unlock
	notifies := c.callsNamed(fn, "iface:statedb.tableIndexTxnNotify.notify")
	if len(notifies) == 0 {
		r.anchorMissing("txn.notify() call in Commit")
	}
	for i, n := range notifies {
		key := fmt.Sprintf("%s|store<notify#%d", name, i+1)
		if instrDominates(S, n) && instrDominates(U, n) {
			r.okP([]string{"C02", "C06"}, key, c.posStr(instrPos(n)), "notify() is dominated by the root Store and by dbState.mu.Unlock: a woken reader sees the new root")
		} else {
			r.badP([]string{"C02", "C06"}, key, c.posStr(instrPos(n)), "watch channels can be closed before the new root is stored (or while holding the root mutex): a reader woken by the channel may still load the old root")
		}
	}
	// (3) close() of init channels after store
	closes := c.callsNamed(fn, "builtin.close")
	for i, cl := range closes {
		key := fmt.Sprintf("%s|store<close#%d", name, i+1)
		if instrDominates(S, cl) {
			r.okP([]string{"C02", "C19"}, key, c.posStr(instrPos(cl)), "close() is dominated by the root Store")
		} else {
			r.badP([]string{"C02", "C19"}, key, c.posStr(instrPos(cl)), "an initialization watch channel can be closed before the root Store: a snapshot taken after the close may still show the table uninitialized")
		}
	}
	if len(closes) == 0 {
		r.anchorMissing("close(ch) of init channels in Commit")
	}
	// (4) table locks released after store and after notify
	su := c.callsNamed(fn, nSmusUnlock)
	if len(su) != 1 {
		r.undecided(name+"|smus.Unlock", c.posStr(fn.Pos()), fmt.Sprintf("expected exactly one SortableMutexes.Unlock in Commit, found %d", len(su)))
	} else {
		k := name + "|store<smus.Unlock"
		if instrDominates(S, su[0]) && instrDominates(U, su[0]) {
			r.okP([]string{"C05"}, k, c.posStr(instrPos(su[0])), "table locks are released only after the root Store")
		} else {
			r.badP([]string{"C05"}, k, c.posStr(instrPos(su[0])), "table locks can be released before the root is stored: the next writer of the table starts from a root without this commit (lost update)")
		}
		k = name + "|notify<smus.Unlock"
		bad := false
		for _, n := range notifies {
			if instrReaches(su[0], n) || !instrReaches(n, su[0]) {
				bad = true
			}
		}
		if bad {
			r.badP([]string{"C05", "C06"}, k, c.posStr(instrPos(su[0])), "table locks are released before the notify loop finished: the next transaction's Tree.Txn() recycles the part.Txn and clears its pending watch set (lost notifications)")
		} else {
			r.okP([]string{"C05", "C06"}, k, c.posStr(instrPos(su[0])), "the notify loop completes before the table locks are released")
		}
	}
	// (5) returned snapshot is the stored slice
	stored := publishedArg(S)
	okRet := false
	var retPos string
	for _, ia := range allInstrs(fn) {
		st, ok := ia.In.(*ssa.Store)
		if !ok || !isFieldAddrOf(st.Addr, "writeTxnHandle", "readTxn") {
			continue
		}
		retPos = c.posStr(instrPos(st))
		v := stripConv(st.Val)
		if addr, ok := isLoad(v); ok && addr == stored && instrDominates(S, st) {
			okRet = true
		}
	}
	if retPos == "" {
		r.anchorMissing("handle.readTxn assignment in Commit")
	} else if okRet {
		r.okP([]string{"C02"}, name+"|return=stored", retPos, "the snapshot returned by Commit is the slice that was stored as the new root")
	} else {
		r.badP([]string{"C02"}, name+"|return=stored", retPos, "the snapshot returned by Commit is not the root that was published")
	}
}

func ruleLoadAfterLock(c *Ctx, r *Reporter) {
	fn := c.Func("statedb", "DB", "WriteTxn")
	if fn == nil {
		r.anchorMissing("statedb.(DB).WriteTxn")
		return
	}
	name := c.fnName(fn)
	locks := c.callsNamed(fn, nSmusLock)
	if len(locks) != 1 {
		r.undecided(name+"|smus.Lock", c.posStr(fn.Pos()), fmt.Sprintf("expected exactly one SortableMutexes.Lock in WriteTxn, found %d", len(locks)))
		return
	}
	L := locks[0]
	loads := c.rootLoads(fn)
	if len(loads) == 0 {
		r.anchorMissing("root Load in WriteTxn")
	}
	for i, ld := range loads {
		k := fmt.Sprintf("%s|lock<load#%d", name, i+1)
		if instrDominates(L, ld) {
			r.ok(k, c.posStr(instrPos(ld)), "root Load is dominated by SortableMutexes.Lock")
		} else {
			r.bad(k, c.posStr(instrPos(ld)), "the root is loaded before the table locks are held: the transaction may start from a state that misses a commit made while it waited")
		}
	}
	// oldRoot := Load(); tableEntries := Clone(*oldRoot)
	var oldRootStore *ssa.Store
	for _, ia := range allInstrs(fn) {
		st, ok := ia.In.(*ssa.Store)
		if !ok {
			continue
		}
		if isFieldAddrOf(st.Addr, "writeTxnState", "oldRoot") {
			oldRootStore = st
			isLoadCall := false
			for _, ld := range loads {
				if v, ok := ld.(ssa.Value); ok && v == st.Val {
					isLoadCall = true
				}
			}
			r.check(isLoadCall && instrDominates(L, st), name+"|oldRoot=Load()", c.posStr(instrPos(st)),
				"txn.oldRoot is the root loaded under the table locks",
				"txn.oldRoot is not assigned from the root Load taken under the table locks")
		}
	}
	if oldRootStore == nil {
		r.anchorMissing("txn.oldRoot assignment in WriteTxn")
		return
	}
	for _, ia := range allInstrs(fn) {
		st, ok := ia.In.(*ssa.Store)
		if !ok || !isFieldAddrOf(st.Addr, "writeTxnState", "tableEntries") {
			continue
		}
		k := name + "|tableEntries=Clone(*oldRoot)"
		call, ok := st.Val.(*ssa.Call)
		good := false
		if ok && c.calleeName(call) == nClone && len(call.Call.Args) == 1 {
			if p, ok := isLoad(call.Call.Args[0]); ok {
				// p is the *dbRoot: either the Load() result or *(&txn.oldRoot)
				if _, ok := loadOfField(p, "writeTxnState", "oldRoot"); ok && instrDominates(oldRootStore, call) {
					good = true
				}
				for _, ld := range loads {
					if v, ok := ld.(ssa.Value); ok && v == p && instrDominates(L, ld) {
						good = true
					}
				}
			}
		}
		r.check(good, k, c.posStr(instrPos(st)),
			"txn.tableEntries is a fresh clone of the root loaded under the table locks",
			"txn.tableEntries is not a clone of the root loaded under the table locks")
	}
}

func ruleRootMerge(c *Ctx, r *Reporter) {
	fn := c.Func("statedb", "writeTxnHandle", "Commit")
	if fn == nil {
		r.anchorMissing("statedb.(writeTxnHandle).Commit")
		return
	}
	name := c.fnName(fn)
	stores := c.rootStores(fn)
	loads := c.rootLoads(fn)
	if len(stores) != 1 || len(loads) != 1 {
		r.undecided(name+"|shape", c.posStr(fn.Pos()), "expected one root Store and one root Load in Commit")
		return
	}
	pub := publishedArg(stores[0]) // pointer to the published slice
	ldv := loads[0].(ssa.Value)
	// element stores into the published slice: addr = &(*pub)[i]
	n := 0
	merged := 0
	for _, ia := range allInstrs(fn) {
		st, ok := ia.In.(*ssa.Store)
		if !ok {
			continue
		}
		ix, ok := st.Addr.(*ssa.IndexAddr)
		if !ok {
			continue
		}
		base, ok := isLoad(ix.X)
		isPub := ok && base == pub
		if !isPub {
			// also an element store through txn.tableEntries aliases the published slice
			if _, ok := loadOfField(ix.X, "writeTxnState", "tableEntries"); !ok {
				continue
			}
		}
		n++
		key := fmt.Sprintf("%s|root-element-store#%d", name, n)
		pos := c.posStr(instrPos(st))
		// value must be currentRoot[i] with the same index
		good := false
		if va, ok := isLoad(st.Val); ok {
			if vix, ok := va.(*ssa.IndexAddr); ok && vix.Index == ix.Index {
				if p, ok := isLoad(vix.X); ok && p == ldv {
					good = true
				}
			}
		}
		if !good {
			r.bad(key, pos, "an element of the root being published is overwritten with something other than the same position of the root loaded under the mutex")
			continue
		}
		// must be on the not-locked edge of the entry at the same index
		onEdge := false
		for _, f := range factsAt(st.Block()) {
			cond, val := stripNot(f.Cond, f.Val)
			if e, ok := loadOfField(cond, "tableEntry", "locked"); ok && !val {
				// e = txn.tableEntries[i]
				if ea, ok := isLoad(e); ok {
					if eix, ok := ea.(*ssa.IndexAddr); ok && eix.Index == ix.Index {
						onEdge = true
					}
				}
			}
		}
		if onEdge {
			merged++
			r.ok(key, pos, "root[pos] = currentRoot[pos] on the edge where the entry at pos is not locked")
		} else {
			r.bad(key, pos, "the current root's entry overwrites a position that is not known to be unlocked: a table modified by this transaction would be replaced by its old version")
		}
	}
	// and the unlocked edge must contain such a store: find the If on locked in the second loop (after Lock)
	locks := c.callsOnField(fn, nMutexLock, "dbState", "mu")
	found := 0
	for _, b := range fn.Blocks {
		if len(b.Instrs) == 0 || len(locks) != 1 {
			continue
		}
		iff, ok := b.Instrs[len(b.Instrs)-1].(*ssa.If)
		if !ok {
			continue
		}
		cond, val := stripNot(iff.Cond, true)
		if _, ok := loadOfField(cond, "tableEntry", "locked"); !ok {
			continue
		}
		if !instrDominates(locks[0], iff) {
			continue
		}
		found++
		// the successor where locked is false
		var unlockedSucc *ssa.BasicBlock
		if val {
			unlockedSucc = b.Succs[1]
		} else {
			unlockedSucc = b.Succs[0]
		}
		has := false
		for _, in := range unlockedSucc.Instrs {
			if st, ok := in.(*ssa.Store); ok {
				if ix, ok := st.Addr.(*ssa.IndexAddr); ok {
					if base, ok := isLoad(ix.X); ok && base == pub {
						has = true
					}
				}
			}
		}
		r.check(has, name+"|unlocked-edge-merges", c.posStr(instrPos(iff)),
			"the not-locked edge in the critical section refreshes the position from the current root",
			"under the root mutex, the branch for entries that are not locked does not take the entry from the current root: a concurrent commit to another table is overwritten by this transaction's stale copy")
	}
	if found == 0 {
		r.bad(name+"|unlocked-edge-merges", c.posStr(fn.Pos()), "no branch on entry.locked inside the root critical section: unlocked positions are never refreshed from the current root")
	}
	_ = merged
}

// sliceDeps: does the slice value v carry, at slice level, the root loaded by ld?
func sliceDependsOn(fn *ssa.Function, v ssa.Value, ld ssa.Value, seen map[ssa.Value]bool) bool {
	if v == nil || seen[v] {
		return false
	}
	seen[v] = true
	switch x := v.(type) {
	case *ssa.UnOp:
		if addr, ok := isLoad(x); ok {
			if addr == ld {
				return true
			}
			if a := allocOf(addr); a != nil {
				for _, st := range storesTo(fn, a) {
					if sliceDependsOn(fn, st.Val, ld, seen) {
						return true
					}
				}
			}
		}
	case *ssa.Slice:
		return sliceDependsOn(fn, x.X, ld, seen)
	case *ssa.Phi:
		for _, e := range x.Edges {
			if sliceDependsOn(fn, e, ld, seen) {
				return true
			}
		}
	case *ssa.ChangeType:
		return sliceDependsOn(fn, x.X, ld, seen)
	case *ssa.Call:
		com := x.Common()
		if b, ok := com.Value.(*ssa.Builtin); ok && b.Name() == "append" {
			for _, a := range com.Args {
				if sliceDependsOn(fn, a, ld, seen) {
					return true
				}
			}
			return false
		}
		if f := staticCallee(x); f != nil {
			n := extFnName(f)
			if n == nClone || n == "slices.Concat" || n == "slices.Grow" {
				for _, a := range com.Args {
					if sliceDependsOn(fn, a, ld, seen) {
						return true
					}
				}
			}
		}
	case *ssa.MakeSlice:
		// make([]T, len(x)): length flows from the loaded root
		return lenDependsOn(fn, x.Len, ld, seen) || lenDependsOn(fn, x.Cap, ld, seen)
	}
	return false
}

func lenDependsOn(fn *ssa.Function, v ssa.Value, ld ssa.Value, seen map[ssa.Value]bool) bool {
	switch x := v.(type) {
	case *ssa.Call:
		if b, ok := x.Common().Value.(*ssa.Builtin); ok && (b.Name() == "len" || b.Name() == "cap") {
			return sliceDependsOn(fn, x.Common().Args[0], ld, map[ssa.Value]bool{})
		}
	case *ssa.BinOp:
		return lenDependsOn(fn, x.X, ld, seen) || lenDependsOn(fn, x.Y, ld, seen)
	case *ssa.Phi:
		for _, e := range x.Edges {
			if lenDependsOn(fn, e, ld, seen) {
				return true
			}
		}
	}
	return false
}

func ruleRootLen(c *Ctx, r *Reporter) {
	for _, fnName := range [][3]string{{"statedb", "DB", "registerTable"}, {"statedb", "writeTxnHandle", "Commit"}} {
		fn := c.Func(fnName[0], fnName[1], fnName[2])
		if fn == nil {
			r.anchorMissing(fnName[0] + ".(" + fnName[1] + ")." + fnName[2])
			continue
		}
		name := c.fnName(fn)
		stores := c.rootStores(fn)
		loads := c.rootLoads(fn)
		if len(stores) != 1 || len(loads) != 1 {
			r.undecided(name+"|shape", c.posStr(fn.Pos()), "expected one root Store and one root Load")
			continue
		}
		pub := publishedArg(stores[0])
		ldv := loads[0].(ssa.Value)
		dep := false
		if a := allocOf(pub); a != nil {
			for _, st := range storesTo(fn, a) {
				if sliceDependsOn(fn, st.Val, ldv, map[ssa.Value]bool{}) {
					dep = true
				}
			}
		} else {
			dep = sliceDependsOn(fn, pub, ldv, map[ssa.Value]bool{})
		}
		r.check(dep, name+"|published-len-from-loaded-root", c.posStr(instrPos(stores[0])),
			"the published slice is built (Clone/append/re-slice) from the root loaded inside the critical section, so it is at least as long",
			"the published root only receives elements of the root loaded under the mutex, never its length: tables registered since the transaction's copy was taken are dropped from the published root")
	}
}

func ruleLockSites(c *Ctx, r *Reporter) {
	allow := map[string]map[string]bool{
		nSmusLock:                             {"statedb.(DB).WriteTxn": true},
		nSmusUnlock:                           {"statedb.(writeTxnHandle).Commit": true, "statedb.(writeTxnHandle).Abort": true},
		"iface:internal.SortableMutex.Lock":   {"internal.(SortableMutexes).Lock": true},
		"iface:internal.SortableMutex.Unlock": {"internal.(SortableMutexes).Unlock": true},
		"internal.(sortableMutex).Lock":       {},
	}
	seen := map[string]int{}
	for _, fn := range c.Funcs {
		for _, ia := range allInstrs(fn) {
			call, ok := ia.In.(ssa.CallInstruction)
			if !ok {
				continue
			}
			n := c.calleeName(call)
			// sync.Locker typed invokes on a SortableMutex value
			if n == "iface:sync.Locker.Lock" || n == "iface:sync.Locker.Unlock" {
				if t := call.Common().Value.Type(); types.TypeString(t, nil) != "sync.Locker" {
					n = "iface:internal.SortableMutex." + call.Common().Method.Name()
				}
			}
			al, ok := allow[n]
			if !ok {
				continue
			}
			who := c.fnName(topLevel(fn))
			seen[n]++
			key := fmt.Sprintf("%s|%s", who, n)
			if al[who] {
				r.ok(key, c.posStr(instrPos(call)), "table lock operation at its single legal site")
			} else {
				r.bad(key, c.posStr(instrPos(call)), "table locks are acquired/released outside WriteTxn/Commit/Abort: serialisation of writers and the sorted acquisition order no longer hold")
			}
		}
	}
	for _, n := range []string{nSmusLock, nSmusUnlock, "iface:internal.SortableMutex.Lock", "iface:internal.SortableMutex.Unlock"} {
		if seen[n] == 0 {
			r.anchorMissing("call of " + n)
		}
	}
}

func init() {
	register(&Rule{
		ID: "INIT-SHAPE", Props: []string{"C19"}, Floor: 5,
		Doc: "a table's initialization record gets a new watch channel only when the table has none (init == nil); copies made when registering or marking initializers keep the channel; Commit clears the record only when its pending list is empty and queues exactly that record's channel; Initialized() reports false together with the record's channel only while initializers are pending; the mark-done function keeps no state outside the transaction and finds its own registration by an identity created per RegisterInitializer call, not by the caller-supplied name",
		Run: ruleInitShape,
	})
}

func ruleInitShape(c *Ctx, r *Reporter) {
	reg := c.Func("statedb", "genTable", "RegisterInitializer")
	if reg == nil {
		r.anchorMissing("statedb.(genTable).RegisterInitializer")
		return
	}
	n := 0
	for _, fn := range withAnon(reg) {
		for _, ia := range allInstrs(fn) {
			st, ok := ia.In.(*ssa.Store)
			if !ok || !isFieldAddrOf(st.Addr, "tableInitialization", "watch") {
				continue
			}
			n++
			key := fmt.Sprintf("%s|watch channel assigned#%d", c.fnName(fn), n)
			_, isMake := st.Val.(*ssa.MakeChan)
			nilInit := false
			for _, f := range factsAt(st.Block()) {
				if bo, ok := f.Cond.(*ssa.BinOp); ok && isNilConst(bo.Y) {
					if _, ok := loadOfField(bo.X, "tableEntry", "init"); ok {
						if (bo.Op == token.EQL && f.Val) || (bo.Op == token.NEQ && !f.Val) {
							nilInit = true
						}
					}
				}
			}
			r.check(isMake && nilInit, key, c.posStr(instrPos(st)), "a new init channel is made only when the table has no initialization record", "the initialization record gets a new watch channel although the table already has one (waiters hold the old channel, which is then never closed), or the channel is not fresh")
		}
	}
	if n == 0 {
		r.anchorMissing("assignment of tableInitialization.watch in RegisterInitializer")
	}
	// copies keep the channel: every tableInitialization Alloc that is not the fresh literal is a whole-struct copy of *table.init
	for _, fn := range withAnon(reg) {
		for _, ia := range allInstrs(fn) {
			a, ok := ia.In.(*ssa.Alloc)
			if !ok || namedTypeName(a.Type()) != "tableInitialization" {
				continue
			}
			whole := false
			for _, st := range storesTo(fn, a) {
				if p, ok := isLoad(st.Val); ok {
					if _, ok := loadOfField(p, "tableEntry", "init"); ok {
						whole = true
					}
				}
			}
			hasWatchStore := false
			for _, ib := range allInstrs(fn) {
				if st, ok := ib.In.(*ssa.Store); ok {
					if fa, ok := st.Addr.(*ssa.FieldAddr); ok && fa.X == ssa.Value(a) {
						if _, f, _ := fieldOf(fa); f == "watch" {
							hasWatchStore = true
						}
					}
				}
			}
			if hasWatchStore {
				continue // the fresh literal, judged above
			}
			key := fmt.Sprintf("%s|copy of the record keeps its channel (%s)", c.fnName(fn), a.Comment)
			r.check(whole, key, c.posStr(a.Pos()), "the private record is a struct copy of *table.init (same watch channel)", "a new initialization record is built without copying the existing one: its watch channel differs from the one handed to earlier waiters")
		}
	}
	// the mark-done closure has no state of its own: whatever it does happens to the transaction's
	// private table entry, so a mark made in a transaction that is aborted leaves nothing behind
	{
		bad := ""
		var badPos ssa.Instruction
		n := 0
		for _, fn := range withAnon(reg) {
			if fn == reg {
				continue
			}
			n++
			for _, ia := range allInstrs(fn) {
				switch x := ia.In.(type) {
				case *ssa.Store:
					root := x.Addr
					for {
						if fa, ok := root.(*ssa.FieldAddr); ok {
							root = fa.X
							continue
						}
						if ix, ok := root.(*ssa.IndexAddr); ok {
							root = ix.X
							continue
						}
						break
					}
					if _, ok := root.(*ssa.FreeVar); ok && bad == "" {
						bad, badPos = "assigns a variable captured from RegisterInitializer", x
					}
				case ssa.CallInstruction:
					if cn := c.calleeName(x); strings.HasPrefix(cn, "sync.") || strings.HasPrefix(cn, "sync/atomic.") {
						for _, arg := range x.Common().Args {
							v := arg
							if fa, ok := v.(*ssa.FieldAddr); ok {
								v = fa.X
							}
							if _, ok := v.(*ssa.FreeVar); ok && bad == "" {
								bad, badPos = "uses "+cn+" on a variable captured from RegisterInitializer", x
							}
						}
					}
				}
			}
		}
		key := "statedb.(genTable).RegisterInitializer|mark-done keeps no state outside the transaction"
		switch {
		case n == 0:
			r.undecidedP([]string{"C19"}, key, c.posStr(reg.Pos()), "no mark-done closure found")
		case bad == "":
			r.okP([]string{"C19"}, key, c.posStr(reg.Pos()), "the returned closure only reads its captured variables; its effect is confined to the transaction's table entry")
		default:
			r.badP([]string{"C19"}, key, c.posStr(instrPos(badPos)), "the mark-done closure "+bad+": that state survives Abort, so a mark made in an aborted transaction is remembered and a later mark in a committed transaction does nothing - the table never becomes initialized")
		}
	}
	// the mark-done closure finds its own registration by an identity created per RegisterInitializer
	// call, not by anything the caller supplied: a name can be registered again (after the first
	// registration is done, or after the registering transaction was aborted) and the old function must
	// not complete that other registration
	{
		key := "statedb.(genTable).RegisterInitializer|mark-done identifies its own registration"
		// fresh(v): v is a cell of reg whose content is created by this call (allocation, channel, call
		// result), as opposed to a parameter or something computed from parameters only
		var fromParams func(v ssa.Value, depth int) bool
		fromParams = func(v ssa.Value, depth int) bool {
			if depth > 8 {
				return false
			}
			switch x := v.(type) {
			case *ssa.Parameter, *ssa.Const:
				return true
			case *ssa.Convert:
				return fromParams(x.X, depth+1)
			case *ssa.ChangeType:
				return fromParams(x.X, depth+1)
			case *ssa.MakeInterface:
				return fromParams(x.X, depth+1)
			case *ssa.BinOp:
				return fromParams(x.X, depth+1) && fromParams(x.Y, depth+1)
			case *ssa.FieldAddr:
				return fromParams(x.X, depth+1)
			case *ssa.Field:
				return fromParams(x.X, depth+1)
			case *ssa.UnOp:
				if x.Op == token.MUL {
					if al, ok := x.X.(*ssa.Alloc); ok {
						sts := storesTo(reg, al)
						if len(sts) == 0 {
							return false
						}
						for _, st := range sts {
							if !fromParams(st.Val, depth+1) {
								return false
							}
						}
						return true
					}
				}
				return fromParams(x.X, depth+1)
			case *ssa.Phi:
				for _, e := range x.Edges {
					if !fromParams(e, depth+1) {
						return false
					}
				}
				return true
			}
			return false
		}
		freshCell := func(b ssa.Value) bool {
			al, ok := b.(*ssa.Alloc)
			if !ok {
				return false
			}
			sts := storesTo(reg, al)
			if len(sts) == 0 {
				return false
			}
			for _, st := range sts {
				if fromParams(st.Val, 0) {
					return false
				}
			}
			return true
		}
		// bindings of every closure under reg
		fresh := map[*ssa.FreeVar]bool{}
		var bind func(parent *ssa.Function)
		bind = func(parent *ssa.Function) {
			for _, ia := range allInstrs(parent) {
				mc, ok := ia.In.(*ssa.MakeClosure)
				if !ok {
					continue
				}
				cf, _ := mc.Fn.(*ssa.Function)
				if cf == nil {
					continue
				}
				for i, b := range mc.Bindings {
					if i >= len(cf.FreeVars) {
						break
					}
					switch bb := b.(type) {
					case *ssa.FreeVar:
						fresh[cf.FreeVars[i]] = fresh[bb]
					default:
						fresh[cf.FreeVars[i]] = parent == reg && freshCell(b)
					}
				}
				bind(cf)
			}
		}
		bind(reg)
		used := false
		var usedPos token.Pos
		nCl := 0
		for _, fn := range withAnon(reg) {
			if fn == reg {
				continue
			}
			nCl++
			for _, fv := range fn.FreeVars {
				if !fresh[fv] {
					continue
				}
				for _, ref := range *fv.Referrers() {
					ld, ok := ref.(*ssa.UnOp)
					if !ok || ld.Op != token.MUL {
						continue
					}
					// the identity itself is compared or searched for (not a field read out of it)
					var asWhole func(v ssa.Value, depth int) bool
					asWhole = func(v ssa.Value, depth int) bool {
						if depth > 4 || v.Referrers() == nil {
							return false
						}
						for _, u := range *v.Referrers() {
							switch y := u.(type) {
							case *ssa.BinOp:
								if y.Op == token.EQL || y.Op == token.NEQ {
									return true
								}
							case ssa.CallInstruction:
								for _, a := range y.Common().Args {
									if a == v {
										return true
									}
								}
							case *ssa.MakeInterface:
								if asWhole(y, depth+1) {
									return true
								}
							case *ssa.ChangeType:
								if asWhole(y, depth+1) {
									return true
								}
							}
						}
						return false
					}
					if asWhole(ld, 0) && !used {
						used, usedPos = true, ld.Pos()
					}
				}
			}
		}
		switch {
		case nCl == 0:
			r.undecidedP([]string{"C19"}, key, c.posStr(reg.Pos()), "no mark-done closure found")
		case used:
			r.okP([]string{"C19"}, key, c.posStr(usedPos), "the returned closure looks its registration up by an identity allocated in this RegisterInitializer call")
		default:
			r.badP([]string{"C19"}, key, c.posStr(reg.Pos()), "the mark-done closure finds its registration only through values supplied by the caller (the name): once that name is registered again - after the first registration was done, or because the registering transaction was aborted - the old function completes the other registration, and the table is reported initialized although that initializer never finished")
		}
	}
	// Commit: init cleared only when pending is empty, and that record's channel is queued
	if commit := c.Func("statedb", "writeTxnHandle", "Commit"); commit != nil {
		found := false
		for _, ia := range allInstrs(commit) {
			st, ok := ia.In.(*ssa.Store)
			if !ok || !isFieldAddrOf(st.Addr, "tableEntry", "init") {
				continue
			}
			found = true
			empty := false
			for _, f := range factsAt(st.Block()) {
				if bo, ok := f.Cond.(*ssa.BinOp); ok && bo.Op == token.EQL && f.Val {
					if k, ok := constInt(bo.Y); ok && k == 0 {
						if call, ok := bo.X.(*ssa.Call); ok {
							if b, ok := call.Call.Value.(*ssa.Builtin); ok && b.Name() == "len" {
								if _, ok := loadOfField(call.Call.Args[0], "tableInitialization", "pending"); ok {
									empty = true
								}
							}
						}
					}
				}
			}
			queued := false
			for _, in := range st.Block().Instrs {
				if call, ok := in.(*ssa.Call); ok {
					if b, ok := call.Call.Value.(*ssa.Builtin); ok && b.Name() == "append" {
						prov := map[string]bool{}
						chanProvenance(commit, call.Call.Args[1], map[ssa.Value]bool{}, prov)
						if prov["statedb.tableInitialization.watch"] {
							queued = true
						}
					}
				}
			}
			r.check(isNilConst(st.Val) && empty && queued, "statedb.(writeTxnHandle).Commit|init cleared iff no initializer pending", c.posStr(instrPos(st)), "table.init = nil only under len(init.pending) == 0, with init.watch queued for closing", "Commit clears the initialization record while initializers are pending, or without queueing its channel: the table reports initialized too early / waiters are never woken")
		}
		if !found {
			r.bad("statedb.(writeTxnHandle).Commit|init cleared iff no initializer pending", c.posStr(commit.Pos()), "Commit never clears a completed initialization record: the init channel is never closed")
		}
	}
	// Initialized()
	if fn := c.Func("statedb", "genTable", "Initialized"); fn != nil {
		good := true
		n := 0
		for _, ret := range returnsOf(fn) {
			n++
			b, isConst := ret.Results[0].(*ssa.Const)
			if !isConst || b.Value == nil {
				good = false
				continue
			}
			isTrue := b.Value.String() == "true"
			_, isInitWatchRes := loadOfField(stripConv(ret.Results[1]), "tableInitialization", "watch")
			closed, _ := isGlobalLoad(ret.Results[1], "closedWatchChannel")
			if isTrue && !closed {
				good = false
			}
			if !isTrue {
				if !isInitWatchRes {
					good = false
				}
				pendingNonEmpty := false
				for _, f := range factsAt(ret.Block()) {
					if bo, ok := f.Cond.(*ssa.BinOp); ok && bo.Op == token.EQL && !f.Val {
						if k, ok := constInt(bo.Y); ok && k == 0 {
							pendingNonEmpty = true
						}
					}
				}
				if !pendingNonEmpty {
					good = false
				}
			}
		}
		r.check(good && n >= 2, "statedb.(genTable).Initialized|shape", c.posStr(fn.Pos()), "false is returned only with the record's channel while initializers are pending; true comes with the closed channel", "Initialized() does not report (false, init.watch) exactly while the pending list is non-empty")
	} else {
		r.anchorMissing("statedb.(genTable).Initialized")
	}
}
