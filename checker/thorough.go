package main

import "fmt"

// thoroughConfigs re-runs the property's rules under the alternative build
// configurations (GOARCH=386 changes the width of int; -tags verif enables the
// hook guard) and requires identical verdicts.
func thoroughConfigs(pid, repo string, rules []*Rule, kf KnownFile) (fail []Ob, cfgs []map[string]any, notes []string) {
	for _, o := range []loadOpts{
		{env: []string{"GOARCH=386"}, label: "GOARCH=386"},
		{tags: "verif", label: "tags=verif"},
	} {
		c, err := loadRepo(repo, o)
		if err != nil {
			fail = append(fail, Ob{Rule: "LOAD", Key: "LOAD|" + o.label, Status: Undecided, Pos: "-", Msg: fmt.Sprintf("cannot load configuration %s: %v", o.label, err)})
			continue
		}
		rep := runRules(c, rules)
		out := evaluate(pid, rep, rules, kf)
		for _, ob := range out.failing {
			ob.Key = ob.Key + "@" + o.label
			fail = append(fail, ob)
		}
		for _, ff := range out.floorFails {
			fail = append(fail, Ob{Rule: "FLOOR", Key: "FLOOR|" + ff + "@" + o.label, Status: Undecided, Pos: "-", Msg: ff})
		}
		cfgs = append(cfgs, map[string]any{"config": o.label, "packages": len(c.Pkgs), "functions": len(c.Funcs), "obligations": len(out.obs), "failing": len(out.failing)})
	}
	return
}
