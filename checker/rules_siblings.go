package main

import (
	"fmt"
	"go/ast"
	"go/token"
	"go/types"
	"strings"

	"golang.org/x/tools/go/ssa"
)

func init() {
	register(&Rule{
		ID: "NIL-SENTINEL", Props: []string{"C04", "C18"}, Floor: 1,
		Doc: "no index key (index.Key value, or []byte key field of an index iterator/entry) is compared with nil to decide presence: the empty key is a legal key and index.String(\"\") is a nil slice",
		Run: ruleNilSentinel,
	})
	register(&Rule{
		ID: "KEYSET-GUARD", Props: []string{"C04"}, Floor: 2,
		Doc: "every KeySet method that uses `head` for anything but returning it does so under the same emptiness guard (nonEmpty)",
		Run: ruleKeysetGuard,
	})
	register(&Rule{
		ID: "REINDEX-SIBLINGS", Props: []string{"C04"}, Floor: 7,
		Doc: "both reindex implementations insert the new keys under new.revision != 0, remove under old.revision != 0 exactly the old keys that are not in the new key set, and (part index) transform the key for insert and delete with the same encodeNonUniqueKey(idKey, ·) under the same `!unique` test",
		Run: ruleReindexSiblings,
	})
	register(&Rule{
		ID: "LPM-DIVERGE", Props: []string{"C13"}, Floor: 8,
		Doc: "every descent loop of the LPM trie steps into a child only where the longest match covers the node's whole prefix, and a query never hands out a node the query diverged from (unless an explicit ordering comparison on the node's key intervenes, as in LowerBound)",
		Run: ruleLpmDiverge,
	})
	register(&Rule{
		ID: "SINGLETON-FIRST", Props: []string{"C17"}, Floor: 2,
		Doc: "a part.Map operation that moves the singleton pair into the tree and also inserts caller-supplied pairs migrates the singleton first, or inserts the caller's pair only for a key already compared unequal to the singleton's (a later write to a key wins)",
		Run: ruleSingletonFirst,
	})
	register(&Rule{
		ID: "WAIT-REMOVE-RETURN", Props: []string{"C20"}, Floor: 7,
		Doc: "WatchSet.Wait holds the set's mutex throughout; the channels it deletes from the set are exactly the final contents of the one slice variable it returns; that variable only receives channels chosen by reflect.Select from cases built by ranging the set on this call; a nil result is paired with the context's error",
		Run: ruleWaitRemoveReturn,
	})
	register(&Rule{
		ID: "REPR-EQ", Props: []string{"C17"}, Floor: 3,
		Doc: "the equality predicates of part.Map/part.Set never answer `false` from the representation flags (hasTree, singleton) alone: a negative answer is always backed by a length or key/value comparison, because the same contents can be held in different representations",
		Run: ruleReprEq,
	})
	register(&Rule{
		ID: "DEDUP-SIBLINGS", Props: []string{"C04"}, Floor: 3,
		Doc: "every non-unique index iterator that de-duplicates objects by primary key does so with a set (map lookup + map update keyed by the encoded primary) like its siblings: an object reachable through several keys is yielded once",
		Run: ruleDedupSiblings,
	})
	register(&Rule{
		ID: "ENC-NORMAL", Props: []string{"C18"}, Floor: 3,
		Doc: "the address encoders of package index normalise to the 16-byte form (To16/As16) so equal addresses give equal, constant-width keys",
		Run: ruleEncNormal,
	})
}

func isKeyType(t types.Type) bool {
	n := namedOf(t)
	return n != nil && n.Obj().Name() == "Key" && n.Obj().Pkg() != nil && strings.HasSuffix(n.Obj().Pkg().Path(), "/index")
}

func ruleNilSentinel(c *Ctx, r *Reporter) {
	n := 0
	checked := 0
	for _, fn := range c.Funcs {
		if fn.Package() == nil {
			continue
		}
		pk := shortPkg(fn.Package().Pkg.Path())
		if pk != "index" && pk != "statedb" {
			continue
		}
		for _, ia := range allInstrs(fn) {
			bo, ok := ia.In.(*ssa.BinOp)
			if !ok || (bo.Op != token.EQL && bo.Op != token.NEQ) {
				continue
			}
			var other ssa.Value
			if isNilConst(bo.Y) {
				other = bo.X
			} else if isNilConst(bo.X) {
				other = bo.Y
			} else {
				continue
			}
			checked++
			isKey := isKeyType(other.Type())
			what := "index.Key value"
			if !isKey {
				// []byte field named like a key
				if sl, ok := other.Type().Underlying().(*types.Slice); ok {
					if bt, ok := sl.Elem().Underlying().(*types.Basic); ok && bt.Kind() == types.Uint8 {
						if p, ok := isLoad(other); ok {
							if fa, ok := p.(*ssa.FieldAddr); ok {
								_, f, _ := fieldOf(fa)
								lf := strings.ToLower(f)
								if strings.Contains(lf, "key") || lf == "primary" || lf == "secondary" {
									isKey = true
									what = "key field " + fieldKeyOf(fa)
								}
							}
						}
					}
				}
			}
			if !isKey {
				continue
			}
			n++
			r.bad(fmt.Sprintf("%s|%s nil-compared#%d", c.fnName(fn), what, n), c.posStr(instrPos(bo)), "presence of a key is decided by comparing it with nil ("+what+"): the empty key is legal and may be a nil slice, so objects with the empty key are skipped or treated as absent")
		}
	}
	if n == 0 {
		r.ok("module|no key compared with nil", "-", fmt.Sprintf("%d nil comparisons in packages statedb and index inspected; none on an index key", checked))
	}
	if checked < 20 {
		r.undecided("nil comparisons", "-", fmt.Sprintf("expected to inspect at least 20 nil comparisons, saw %d", checked))
	}
}

func ruleKeysetGuard(c *Ctx, r *Reporter) {
	n := 0
	for _, fn := range c.Funcs {
		if fn.Parent() != nil || recvTypeName(fn) != "KeySet" || fn.Package() == nil || shortPkg(fn.Package().Pkg.Path()) != "index" {
			continue
		}
		// does it use head for something other than returning it?
		var use ssa.Instruction
		for _, ia := range allInstrs(fn) {
			var headVal ssa.Value
			switch x := ia.In.(type) {
			case *ssa.UnOp:
				if _, ok := loadOfField(x, "KeySet", "head"); ok {
					headVal = x
				}
			case *ssa.Field:
				if tn, f, _ := fieldOf(x); tn == "KeySet" && f == "head" {
					headVal = x
				}
			}
			if headVal == nil {
				continue
			}
			if refs := headVal.Referrers(); refs != nil {
				for _, ref := range *refs {
					switch ref.(type) {
					case *ssa.Return, *ssa.DebugRef:
					default:
						use = ref
					}
				}
			}
		}
		if use == nil {
			continue
		}
		n++
		guarded := false
		for _, f := range factsAt(use.Block()) {
			cond, val := stripNot(f.Cond, f.Val)
			isNE := false
			if _, ok := loadOfField(cond, "KeySet", "nonEmpty"); ok {
				isNE = true
			}
			if fl, ok := cond.(*ssa.Field); ok {
				if tn, fname, _ := fieldOf(fl); tn == "KeySet" && fname == "nonEmpty" {
					isNE = true
				}
			}
			if isNE && val {
				guarded = true
			}
		}
		r.check(guarded, c.fnName(fn)+"|head used under the emptiness guard", c.posStr(instrPos(use)),
			"`head` is only used where the set is known to be non-empty",
			"a KeySet method uses `head` without the emptiness guard its siblings have: for the empty set the nil head compares equal to the empty key (Exists) or is handed to the callback (Foreach)")
	}
	if n < 2 {
		r.undecided("methods", "-", fmt.Sprintf("expected at least 2 KeySet methods using head, found %d", n))
	}
}

// revisionNonZeroFact: block has fact `<obj>.revision != 0` for the parameter with the given name.
func revisionGuard(fn *ssa.Function, b *ssa.BasicBlock, param string) bool {
	_, _, ok := revisionGuardFact(fn, b, param)
	return ok
}

// revisionGuardFact returns the branch condition (and its value) that establishes
// `<param>.revision != 0` at block b.
func revisionGuardFact(fn *ssa.Function, b *ssa.BasicBlock, param string) (ssa.Value, bool, bool) {
	// the parameter by position: reindex(primaryKey, old, new)
	var pv *ssa.Parameter
	switch param {
	case "old":
		if len(fn.Params) >= 4 {
			pv = fn.Params[2]
		}
	case "new":
		if len(fn.Params) >= 4 {
			pv = fn.Params[3]
		}
	}
	for _, f := range factsAt(b) {
		bo, ok := f.Cond.(*ssa.BinOp)
		if !ok {
			continue
		}
		if k, ok := constInt(bo.Y); !ok || k != 0 {
			continue
		}
		isRev := false
		if p, ok := isLoad(bo.X); ok {
			if fa, ok := p.(*ssa.FieldAddr); ok {
				if _, fld, _ := fieldOf(fa); fld == "revision" {
					root := derefLocal(fa.X)
					if a, ok := root.(*ssa.Alloc); ok && pv != nil {
						for _, st := range storesTo(fn, a) {
							if st.Val == ssa.Value(pv) {
								isRev = true
							}
						}
					}
				}
			}
		}
		if fl, ok := bo.X.(*ssa.Field); ok {
			if _, fld, _ := fieldOf(fl); fld == "revision" {
				if p, ok := fl.X.(*ssa.Parameter); ok && p == pv {
					isRev = true
				}
			}
		}
		if !isRev {
			continue
		}
		if (bo.Op == token.NEQ && f.Val) || (bo.Op == token.EQL && !f.Val) {
			return f.Cond, f.Val, true
		}
	}
	return nil, false, false
}

// alwaysAfterGuard: once `<param>.revision != 0` is established, every path to a return
// passes the call (no shortcut skips it).
func alwaysAfterGuard(fn *ssa.Function, call *ssa.Call, param string) bool {
	cond, val, ok := revisionGuardFact(fn, call.Block(), param)
	if !ok {
		return false
	}
	for _, ia := range allInstrs(fn) {
		iff, ok := ia.In.(*ssa.If)
		if !ok || iff.Cond != cond {
			continue
		}
		succ := iff.Block().Succs[1]
		if val {
			succ = iff.Block().Succs[0]
		}
		if len(succ.Instrs) == 0 {
			return false
		}
		first := succ.Instrs[0]
		if first == ssa.Instruction(call) {
			return true
		}
		leak := reachesReturnAvoiding(first, func(in ssa.Instruction) bool { return in == ssa.Instruction(call) }, nil)
		return leak == nil
	}
	return false
}

func ruleReindexSiblings(c *Ctx, r *Reporter) {
	for _, recv := range []string{"partIndexTxn", "lpmIndexTxn"} {
		fn := c.Func("statedb", recv, "reindex")
		if fn == nil {
			r.anchorMissing("statedb.(" + recv + ").reindex")
			continue
		}
		name := c.fnName(fn)
		var foreach []*ssa.Call
		for _, ia := range allInstrs(fn) {
			if call, ok := ia.In.(*ssa.Call); ok && c.calleeName(call) == "index.(KeySet).Foreach" {
				foreach = append(foreach, call)
			}
		}
		if len(foreach) != 2 {
			r.undecided(name+"|shape", c.posStr(fn.Pos()), fmt.Sprintf("expected two KeySet.Foreach calls (insert new keys, remove old keys), found %d", len(foreach)))
			continue
		}
		closureOf := func(call *ssa.Call) *ssa.Function {
			if mc, ok := call.Call.Args[1].(*ssa.MakeClosure); ok {
				f, _ := mc.Fn.(*ssa.Function)
				return f
			}
			return nil
		}
		var ins, del *ssa.Call
		var insCl, delCl *ssa.Function
		for _, fe := range foreach {
			cl := closureOf(fe)
			if cl == nil {
				continue
			}
			for _, ia := range allInstrs(cl) {
				if call, ok := ia.In.(*ssa.Call); ok {
					switch c.calleeName(call) {
					case "part.(Txn).Insert", "statedb.(lpmIndexTxn).insertKey":
						ins, insCl = fe, cl
					case "part.(Txn).Delete", "statedb.(lpmIndexTxn).removeKey":
						del, delCl = fe, cl
					}
				}
			}
		}
		if ins == nil || del == nil || insCl == delCl {
			r.undecided(name+"|shape", c.posStr(fn.Pos()), "could not identify the insert and remove closures")
			continue
		}
		r.check(revisionGuard(fn, ins.Block(), "new"), name+"|insert under new.revision != 0", c.posStr(instrPos(ins)), "new keys are inserted only for an existing new object", "the insertion of new keys is not guarded by new.revision != 0: a deleted object (zero object) gets indexed")
		r.check(revisionGuard(fn, del.Block(), "old"), name+"|remove under old.revision != 0", c.posStr(instrPos(del)), "old keys are removed only when an old object existed", "the removal of old keys is not guarded by old.revision != 0")
		r.check(alwaysAfterGuard(fn, ins, "new") && alwaysAfterGuard(fn, del, "old"), name+"|no shortcut around insertion/removal", c.posStr(fn.Pos()),
			"whenever the new object exists all its keys are inserted, and whenever an old object existed all its keys are examined for removal (no early exit in between)",
			"a shortcut skips the insertion of new keys or the removal of obsolete keys on some path (e.g. 'first key unchanged'): objects with several keys keep stale index entries / miss new ones")
		// the new key set iterated is the one consulted by Exists
		var exists *ssa.Call
		for _, ia := range allInstrs(delCl) {
			if call, ok := ia.In.(*ssa.Call); ok && c.calleeName(call) == "index.(KeySet).Exists" {
				exists = call
			}
		}
		okExists := false
		if exists != nil {
			// the removal call must be on the false edge of Exists
			for _, ia := range allInstrs(delCl) {
				call, ok := ia.In.(*ssa.Call)
				if !ok {
					continue
				}
				cn := c.calleeName(call)
				if cn != "part.(Txn).Delete" && cn != "statedb.(lpmIndexTxn).removeKey" {
					continue
				}
				for _, f := range factsAt(call.Block()) {
					if f.Cond == ssa.Value(exists) && !f.Val {
						okExists = true
					}
				}
			}
			// same set: Exists receiver is load of the captured cell that was stored the Foreach'd set
			if okExists {
				okExists = false
				if p, ok := isLoad(exists.Call.Args[0]); ok {
					if fv, ok := p.(*ssa.FreeVar); ok {
						// binding
						if mc, ok := del.Call.Args[1].(*ssa.MakeClosure); ok {
							for i, v := range delCl.FreeVars {
								if v == fv && i < len(mc.Bindings) {
									cell := mc.Bindings[i]
									// the insert Foreach's receiver is a load of the same cell
									if q, ok := isLoad(ins.Call.Args[0]); ok && q == cell {
										okExists = true
									}
								}
							}
						}
					}
				}
			}
		}
		r.check(okExists, name+"|remove exactly old keys not in the new set", c.posStr(instrPos(del)), "an old key is removed only when newKeys.Exists(oldKey) is false, newKeys being the set that was inserted", "the removal is not conditioned on `!newKeys.Exists(oldKey)` of the inserted key set: a key shared by old and new is deleted right after being written, or stale keys stay")
		if recv == "partIndexTxn" {
			// same key transform under the same !unique test
			xform := func(cl *ssa.Function, callee string) bool {
				for _, ia := range allInstrs(cl) {
					call, ok := ia.In.(*ssa.Call)
					if !ok || c.calleeName(call) != callee {
						continue
					}
					key := stripConv(call.Call.Args[1])
					phi, ok := key.(*ssa.Phi)
					if !ok || len(phi.Edges) < 2 {
						return false
					}
					raw, enc := false, false
					for i, e := range phi.Edges {
						e = stripConv(e)
						if e == ssa.Value(cl.Params[0]) {
							raw = true
							continue
						}
						other := true
						if ec, ok := e.(*ssa.Call); ok && c.calleeName(ec) == "statedb.encodeNonUniqueKey" && stripConv(ec.Call.Args[1]) == ssa.Value(cl.Params[0]) {
							// first arg: the captured idKey; guarded by unique == false
							if p, ok := isLoad(ec.Call.Args[0]); ok {
								if fv, ok := p.(*ssa.FreeVar); ok && freeVarHolds(fn, cl, fv, func(v ssa.Value) bool { return v == ssa.Value(fn.Params[1]) }) {
									pred := phi.Block().Preds[i]
									for _, f := range factsAt(pred) {
										if q, ok := isLoad(f.Cond); ok && !f.Val {
											if fv2, ok := q.(*ssa.FreeVar); ok && freeVarHolds(fn, cl, fv2, func(v ssa.Value) bool {
												_, ok := loadOfField(v, "partIndexTxn", "unique")
												return ok
											}) {
												enc = true
												other = false
											}
										}
									}
								}
							}
						}
						if other {
							return false // a third form of the key
						}
					}
					return raw && enc
				}
				return false
			}
			// a unique key may have been taken over by another object in the meantime (insert B with A's
			// key, then remove A): the entry is removed only after looking at whose it is, as the LPM
			// sibling removeKey does. On the path that does not build the composite (non-unique) key,
			// Delete is reached only through a Get of the same key.
			{
				owner := false
				var delCall, getCall, encCall ssa.Instruction
				for _, ia := range allInstrs(delCl) {
					if call, ok := ia.In.(*ssa.Call); ok {
						switch c.calleeName(call) {
						case "part.(Txn).Delete":
							delCall = call
						case "part.(Txn).Get":
							getCall = call
						case "statedb.encodeNonUniqueKey":
							encCall = call
						}
					}
				}
				if delCall != nil && getCall != nil {
					owner = !entryReachesAvoiding(delCl, delCall, func(in ssa.Instruction) bool { return in == getCall || in == encCall })
				}
				r.check(owner, name+"|a unique entry is removed only if it still belongs to the object", c.posStr(fn.Pos()), "on the unique path the stored entry is looked up before it is deleted", "the old key of a unique index is deleted without checking that the entry still belongs to the object being removed: after `insert B with A's key; delete A` B is in the table but missing from the unique index")
			}
			r.check(xform(insCl, "part.(Txn).Insert") && xform(delCl, "part.(Txn).Delete"), name+"|same key transform for insert and delete", c.posStr(fn.Pos()),
				"both closures use the raw key for unique indexes and encodeNonUniqueKey(idKey, key) otherwise",
				"insert and delete do not apply the same key transform (encodeNonUniqueKey(idKey, ·) under !unique): entries are written under one key and removed under another")
		}
	}
}

func ruleLpmDiverge(c *Ctx, r *Reporter) {
	queryFns := map[string]bool{"Prefix": true, "LowerBound": true, "lpmLookup": true, "lpmLookupExact": true, "Delete": true}
	nLoops := 0
	for _, fn := range c.Funcs {
		if fn.Parent() != nil || fn.Package() == nil || shortPkg(fn.Package().Pkg.Path()) != "lpm" {
			continue
		}
		// descent: load of node.children[var] feeding a loop phi of *lpmNode
		for _, ia := range allInstrs(fn) {
			u, ok := ia.In.(*ssa.UnOp)
			if !ok || u.Op != token.MUL || namedTypeName(u.Type()) != "lpmNode" {
				continue
			}
			ix, ok := u.X.(*ssa.IndexAddr)
			if !ok {
				continue
			}
			if _, isConst := constInt(ix.Index); isConst {
				continue
			}
			fa, ok := ix.X.(*ssa.FieldAddr)
			if !ok {
				continue
			}
			if _, f, _ := fieldOf(fa); f != "children" {
				continue
			}
			node := fa.X
			// part of a loop?
			if !blockReaches(u.Block(), u.Block()) {
				continue
			}
			nLoops++
			name := c.fnName(fn)
			key := fmt.Sprintf("%s|descend only after a full match of the node's prefix", name)
			// fact: LT false, where LT = matchLen < node.prefixLen() or matchLen != nodePrefixLen, matchLen from longestMatch
			isML := func(v ssa.Value) bool {
				seen := map[ssa.Value]bool{}
				var walk func(v ssa.Value) bool
				walk = func(v ssa.Value) bool {
					if seen[v] {
						return false
					}
					seen[v] = true
					switch x := v.(type) {
					case *ssa.Call:
						sf := staticCallee(x)
						return sf != nil && sf.Name() == "longestMatch"
					case *ssa.Phi:
						for _, e := range x.Edges {
							if walk(e) {
								return true
							}
						}
					}
					return false
				}
				return walk(v)
			}
			isNodeLen := func(v ssa.Value) bool {
				if call, ok := v.(*ssa.Call); ok {
					if sf := staticCallee(call); sf != nil && sf.Name() == "prefixLen" && len(call.Call.Args) == 1 && call.Call.Args[0] == node {
						return true
					}
				}
				return false
			}
			full := false
			// the descent may sit in the idom chain below the test (LowerBound pushes siblings first)
			for _, f := range factsAt(u.Block()) {
				bo, ok := f.Cond.(*ssa.BinOp)
				if !ok || !isML(bo.X) || !isNodeLen(bo.Y) {
					continue
				}
				if (bo.Op == token.LSS && !f.Val) || (bo.Op == token.NEQ && !f.Val) || (bo.Op == token.GEQ && f.Val) || (bo.Op == token.EQL && f.Val) {
					full = true
				}
			}
			r.check(full, key, c.posStr(instrPos(u)), "the step into node.children[bit] is only taken where longestMatch covers the node's whole prefix", "the trie is descended past a node without establishing that the query matches the node's whole (compressed) prefix: bits skipped by path compression are never compared, so lookups reach entries the key does not match")
			// (iii) after a full match the loop continues by descending: no exit in between
			if phi, ok := node.(*ssa.Phi); ok {
				loop := naturalLoop(phi.Block())
				for _, ib := range allInstrs(fn) {
					iff, ok := ib.In.(*ssa.If)
					if !ok || !loop[iff.Block()] || !iff.Block().Dominates(u.Block()) {
						continue
					}
					bo, ok := iff.Cond.(*ssa.BinOp)
					if !ok || !isML(bo.X) || !isNodeLen(bo.Y) {
						continue
					}
					var cont *ssa.BasicBlock
					switch bo.Op {
					case token.LSS, token.NEQ:
						cont = iff.Block().Succs[1]
					case token.GEQ, token.EQL:
						cont = iff.Block().Succs[0]
					default:
						continue
					}
					if !cont.Dominates(u.Block()) {
						// not the gate of the descent: the step is reachable from both outcomes of this
						// test (e.g. the first operand of the exact-match conjunction)
						continue
					}
					var exit *ssa.BasicBlock
					seen := map[*ssa.BasicBlock]bool{}
					var walk func(b *ssa.BasicBlock)
					walk = func(b *ssa.BasicBlock) {
						if seen[b] || b == phi.Block() || exit != nil {
							return
						}
						seen[b] = true
						if !loop[b] {
							exit = b
							return
						}
						if isPanicBlock(b) {
							return
						}
						for _, s2 := range b.Succs {
							walk(s2)
						}
					}
					walk(cont)
					k3 := fmt.Sprintf("%s|after a full match the loop only continues by descending", name)
					if exit == nil {
						r.ok(k3, c.posStr(instrPos(iff)), "between the full-match test and the step into the child there is no way out of the loop")
					} else {
						p := c.posStr(fn.Pos())
						if len(exit.Instrs) > 0 {
							p = c.posStr(instrPos(exit.Instrs[0]))
						}
						r.bad(k3, p, "the traversal can leave the loop after a node's prefix fully matched but before descending (an extra early exit): bookkeeping done on the way down (larger siblings for LowerBound, parents for Delete) or the subtree itself is skipped")
					}
				}
			}
			if !queryFns[fn.Name()] {
				continue
			}
			// (ii) diverged exits must not hand out node
			for _, ib := range allInstrs(fn) {
				iff, ok := ib.In.(*ssa.If)
				if !ok {
					continue
				}
				bo, ok := iff.Cond.(*ssa.BinOp)
				if !ok || !isML(bo.X) || !isNodeLen(bo.Y) {
					continue
				}
				var div *ssa.BasicBlock
				switch bo.Op {
				case token.LSS, token.NEQ:
					div = iff.Block().Succs[0]
				case token.GEQ, token.EQL:
					div = iff.Block().Succs[1]
				default:
					continue
				}
				k2 := fmt.Sprintf("%s|diverged exit does not hand out the node", name)
				// forward from div, not re-entering the loop header (the block holding the node phi)
				var hdr *ssa.BasicBlock
				if phi, ok := node.(*ssa.Phi); ok {
					hdr = phi.Block()
				}
				bad := ssa.Instruction(nil)
				seen := map[*ssa.BasicBlock]bool{}
				var walk func(b *ssa.BasicBlock, ordered bool)
				walk = func(b *ssa.BasicBlock, ordered bool) {
					if seen[b] || b == hdr {
						return
					}
					seen[b] = true
					for _, in := range b.Instrs {
						switch x := in.(type) {
						case *ssa.Store:
							if x.Val == node && !ordered {
								bad = x
							}
						case *ssa.Return:
							for _, res := range x.Results {
								if res == node && !ordered {
									bad = x
								}
								if p, ok := isLoad(res); ok {
									if fa2, ok := p.(*ssa.FieldAddr); ok && fa2.X == node && !ordered {
										bad = x
									}
								}
							}
						}
					}
					for i, s := range b.Succs {
						// stay consistent with "the match is shorter than the node's prefix"
						if iff3, ok := b.Instrs[len(b.Instrs)-1].(*ssa.If); ok {
							if bo3, ok := iff3.Cond.(*ssa.BinOp); ok && isML(bo3.X) && isNodeLen(bo3.Y) {
								var take int
								switch bo3.Op {
								case token.LSS, token.NEQ:
									take = 0
								case token.GEQ, token.EQL:
									take = 1
								default:
									take = -1
								}
								if take >= 0 && i != take {
									continue
								}
							}
						}
						o := ordered
						// an ordering comparison on node.key licenses the use on its true edge
						if iff2, ok := b.Instrs[len(b.Instrs)-1].(*ssa.If); ok && i == 0 {
							if bo2, ok := iff2.Cond.(*ssa.BinOp); ok {
								if call, ok := bo2.X.(*ssa.Call); ok && c.calleeName(call) == "bytes.Compare" {
									if p, ok := isLoad(stripConv(call.Call.Args[0])); ok {
										if fa3, ok := p.(*ssa.FieldAddr); ok && fa3.X == node {
											o = true
										}
									}
								}
							}
						}
						walk(s, o)
					}
				}
				walk(div, false)
				if bad == nil {
					r.ok(k2, c.posStr(instrPos(iff)), "on the edge where the query diverges inside the node's prefix the node does not reach the result")
				} else {
					r.bad(k2, c.posStr(instrPos(bad)), "the exit taken when the query diverges inside a node's compressed prefix still hands that node out (iterator start/stack or returned value): the query returns entries it does not cover")
				}
			}
		}
	}
	if nLoops < 5 {
		r.undecided("descent loops", "-", fmt.Sprintf("expected at least 5 descent loops in package lpm, found %d", nLoops))
	}
}

func ruleSingletonFirst(c *Ctx, r *Reporter) {
	n := 0
	for _, fn := range c.Funcs {
		if fn.Package() == nil || shortPkg(fn.Package().Pkg.Path()) != "part" || fn.Parent() != nil {
			continue
		}
		var inserts []*ssa.Call
		for _, f := range withAnon(fn) {
			for _, ia := range allInstrs(f) {
				if call, ok := ia.In.(*ssa.Call); ok && c.calleeName(call) == "part.(Txn).Insert" {
					inserts = append(inserts, call)
				}
			}
		}
		// migration insert: value derives from *m.singleton or its fields
		fromSingleton := func(v ssa.Value) bool {
			seen := map[ssa.Value]bool{}
			var walk func(v ssa.Value, d int) bool
			walk = func(v ssa.Value, d int) bool {
				if v == nil || seen[v] || d > 8 {
					return false
				}
				seen[v] = true
				switch x := v.(type) {
				case *ssa.UnOp:
					if p, ok := isLoad(x); ok {
						if _, ok := loadOfField(p, "Map", "singleton"); ok {
							return true
						}
						if fa, ok := p.(*ssa.FieldAddr); ok {
							if _, ok := loadOfField(fa.X, "Map", "singleton"); ok {
								return true
							}
						}
						if a, ok := p.(*ssa.Alloc); ok {
							for _, ia := range allInstrs(a.Parent()) {
								if st, ok := ia.In.(*ssa.Store); ok {
									if addrRoot(st.Addr) == ssa.Value(a) && walk(st.Val, d+1) {
										return true
									}
								}
							}
						}
					}
				}
				return false
			}
			return walk(v, 0)
		}
		var mig *ssa.Call
		var others []*ssa.Call
		for _, in := range inserts {
			if len(in.Call.Args) == 3 && fromSingleton(in.Call.Args[2]) {
				mig = in
			} else {
				others = append(others, in)
			}
		}
		if mig == nil || len(others) == 0 {
			continue
		}
		n++
		key := c.fnName(fn) + "|singleton migrated before caller pairs"
		var bad *ssa.Call
		if b2, decided := singletonPaths(c, fn, mig, others); decided {
			bad = b2
			others = nil
		}
		for _, o := range others {
			if o.Parent() != mig.Parent() {
				// caller insert inside a range-over-func body of the same function: ordering by the closure creation site
				var site ssa.Instruction
				for _, ia := range allInstrs(fn) {
					if mc, ok := ia.In.(*ssa.MakeClosure); ok && mc.Fn == ssa.Value(o.Parent()) {
						site = mc
					}
				}
				if site != nil && mig.Parent() == fn && instrReaches(site, mig) && !instrReaches(mig, site) {
					bad = o
				}
				continue
			}
			if !instrReaches(o, mig) {
				continue
			}
			// allowed only under a bytes.Equal(key, singletonKey) == false fact
			guarded := false
			for _, f := range factsAt(o.Block()) {
				if call, ok := f.Cond.(*ssa.Call); ok && c.calleeName(call) == "bytes.Equal" && !f.Val {
					guarded = true
				}
				// `a || (b && bytes.Equal(..))` lowers to phi conditions: accept a phi fed by bytes.Equal
				if phi, ok := f.Cond.(*ssa.Phi); ok && !f.Val {
					for _, e := range phi.Edges {
						if call, ok := e.(*ssa.Call); ok && c.calleeName(call) == "bytes.Equal" {
							guarded = true
						}
					}
				}
			}
			if !guarded {
				bad = o
			}
		}
		if bad == nil {
			r.ok(key, c.posStr(instrPos(mig)), "the singleton pair enters the tree before caller-supplied pairs (or the caller's key is known to differ from the singleton's)")
		} else {
			r.bad(key, c.posStr(instrPos(bad)), "a caller-supplied pair is inserted before the old singleton pair is migrated into the tree: for the singleton's key the old value overwrites the new one")
		}
	}
	if n < 2 {
		r.undecided("functions", "-", fmt.Sprintf("expected at least 2 functions migrating the singleton alongside caller inserts, found %d", n))
	}
}

func ruleWaitRemoveReturn(c *Ctx, r *Reporter) {
	fn := c.Func("statedb", "WatchSet", "Wait")
	if fn == nil {
		r.anchorMissing("statedb.(WatchSet).Wait")
		return
	}
	name := c.fnName(fn)
	// (1) mutex held throughout
	locks := c.callsOnField(fn, nMutexLock, "WatchSet", "mu")
	unlocks := c.callsOnField(fn, nMutexUnlock, "WatchSet", "mu")
	held := len(locks) == 1 && locks[0].Block() == fn.Blocks[0]
	nDefer := 0
	for _, u := range unlocks {
		if _, ok := u.(*ssa.Defer); ok {
			nDefer++
		} else {
			held = false
		}
	}
	for _, f := range fn.AnonFuncs {
		if len(c.callsOnField(f, nMutexUnlock, "WatchSet", "mu"))+len(c.callsOnField(f, nMutexLock, "WatchSet", "mu")) > 0 {
			held = false
		}
	}
	r.check(held && nDefer == 1, name+"|mutex held for the whole call", c.posStr(fn.Pos()), "ws.mu is locked at entry and released only by the deferred Unlock", "Wait does not hold ws.mu for its whole duration: a concurrent Wait/Add/Merge rebuilds the shared select-case buffer or the set while this call maps chosen indexes back to channels")
	// (2) the result variable
	var cell *ssa.Alloc
	// the result variable: a slice-of-channels local captured by a deferred closure
	for _, ia := range allInstrs(fn) {
		d, ok := ia.In.(*ssa.Defer)
		if !ok {
			continue
		}
		if mc, ok := d.Call.Value.(*ssa.MakeClosure); ok {
			for _, b := range mc.Bindings {
				if a, ok := b.(*ssa.Alloc); ok {
					if sl, ok := pointee(a.Type()).Underlying().(*types.Slice); ok {
						if _, ok := sl.Elem().Underlying().(*types.Chan); ok {
							cell = a
						}
					}
				}
			}
		}
	}
	if cell == nil {
		for _, ia := range allInstrs(fn) {
			if d, ok := ia.In.(*ssa.Defer); ok {
				for _, a := range d.Call.Args {
					if sl, ok := a.Type().Underlying().(*types.Slice); ok {
						if _, ok := sl.Elem().Underlying().(*types.Chan); ok {
							r.bad(name+"|removal sees the final slice", c.posStr(d.Pos()), "the removal of closed channels is deferred with the slice passed as an argument: defer evaluates it at registration, so channels appended afterwards (settle window) are returned but never removed from the set")
							return
						}
					}
				}
			}
		}
		// maybe not captured: find by type and returns
		r.undecided(name+"|result variable", c.posStr(fn.Pos()), "the slice variable holding the closed channels is not a captured local (the deferred removal must see its final contents)")
		return
	}
	// deferred closure deletes exactly its elements
	delOK := false
	var delPos token.Pos = fn.Pos()
	for _, ia := range allInstrs(fn) {
		d, ok := ia.In.(*ssa.Defer)
		if !ok {
			continue
		}
		mc, ok := d.Call.Value.(*ssa.MakeClosure)
		if !ok {
			// a deferred call with evaluated arguments
			for _, a := range d.Call.Args {
				if p, ok := isLoad(a); ok && p == ssa.Value(cell) {
					delPos = d.Pos()
					r.bad(name+"|removal sees the final slice", c.posStr(d.Pos()), "the removal is deferred with the slice passed as an argument: defer evaluates it at registration, so channels appended later (settle window) are returned but never removed from the set")
					return
				}
			}
			continue
		}
		cl, _ := mc.Fn.(*ssa.Function)
		if cl == nil {
			continue
		}
		captures := false
		for _, b := range mc.Bindings {
			if b == ssa.Value(cell) {
				captures = true
			}
		}
		if !captures {
			continue
		}
		delPos = d.Pos()
		// body: range over *closedChannels; delete(ws.chans, ch)
		for _, ib := range allInstrs(cl) {
			call, ok := ib.In.(*ssa.Call)
			if !ok {
				continue
			}
			if b, ok := call.Call.Value.(*ssa.Builtin); ok && b.Name() == "delete" {
				if _, ok := loadOfField(call.Call.Args[0], "WatchSet", "chans"); ok {
					// key is an element of the captured slice
					if p, ok := isLoad(call.Call.Args[1]); ok {
						if ix, ok := p.(*ssa.IndexAddr); ok {
							if q, ok := isLoad(ix.X); ok {
								if _, ok := q.(*ssa.FreeVar); ok {
									delOK = true
								}
							}
						}
					}
				}
			}
		}
		// the defer must be registered before any append
		for _, ib := range allInstrs(fn) {
			if st, ok := ib.In.(*ssa.Store); ok && st.Addr == ssa.Value(cell) {
				if !instrDominates(d, st) {
					delOK = false
				}
			}
		}
	}
	r.check(delOK, name+"|removed = final contents of the result slice", c.posStr(delPos), "a deferred closure registered before the first append deletes every element of the (captured) result slice from ws.chans", "the channels removed from the set are not exactly the final contents of the returned slice")
	// no other delete/clear on ws.chans
	other := false
	for _, ia := range allInstrs(fn) {
		if call, ok := ia.In.(*ssa.Call); ok {
			if b, ok := call.Call.Value.(*ssa.Builtin); ok && (b.Name() == "delete" || b.Name() == "clear") {
				other = true
			}
		}
		if mu, ok := ia.In.(*ssa.MapUpdate); ok {
			if _, ok := loadOfField(mu.Map, "WatchSet", "chans"); ok {
				other = true
			}
		}
	}
	r.check(!other, name+"|set otherwise untouched", c.posStr(fn.Pos()), "Wait itself neither deletes from nor adds to ws.chans", "Wait modifies ws.chans outside the deferred removal: members that were not returned are dropped (or added)")
	// (3) returns
	for i, ret := range returnsOf(fn) {
		key := fmt.Sprintf("%s|return#%d", name, i+1)
		rv := retValues(ret)
		res, errv := rv[0], rv[1]
		isCtxErr := false
		if call, ok := errv.(*ssa.Call); ok && call.Call.IsInvoke() && call.Call.Method.Name() == "Err" {
			isCtxErr = true
		}
		switch {
		case isNilConst(res):
			// nothing may have been collected (and so be removed by the deferred closure) on this path
			collected := false
			for _, ia := range allInstrs(fn) {
				if st, ok := ia.In.(*ssa.Store); ok && st.Addr == ssa.Value(cell) && !isNilConst(st.Val) && instrReaches(st, ret) {
					collected = true
				}
			}
			r.check(isCtxErr && !collected, key, c.posStr(instrPos(ret)), "nil result is returned together with ctx.Err(), on a path where nothing was collected", "a nil result is returned without the context's error, or after channels were already collected: those are removed from the set by the deferred closure but never returned to the caller")
		default:
			p, ok := isLoad(res)
			r.check(ok && p == ssa.Value(cell) && (isNilConst(errv) || isCtxErr), key, c.posStr(instrPos(ret)), "returns the result slice (with nil or ctx.Err())", "Wait returns something other than the slice whose contents are removed from the set")
		}
	}
	// (4) appends: value is cases[chosen].Chan... with chosen from reflect.Select and chosen != 0
	nApp := 0
	for _, ia := range allInstrs(fn) {
		st, ok := ia.In.(*ssa.Store)
		if !ok || st.Addr != ssa.Value(cell) {
			continue
		}
		app, ok := st.Val.(*ssa.Call)
		if !ok {
			if isNilConst(st.Val) {
				continue
			}
			r.bad(fmt.Sprintf("%s|result assigned#%d", name, nApp+1), c.posStr(instrPos(st)), "the result slice is assigned something other than an append of a selected channel")
			continue
		}
		if b, ok := app.Call.Value.(*ssa.Builtin); !ok || b.Name() != "append" {
			continue
		}
		nApp++
		key := fmt.Sprintf("%s|append#%d is a selected member", name, nApp)
		// find the chosen index: cases[chosen]
		var chosen ssa.Value
		var walk func(v ssa.Value, d int)
		seen := map[ssa.Value]bool{}
		walk = func(v ssa.Value, d int) {
			if v == nil || seen[v] || d > 12 || chosen != nil {
				return
			}
			seen[v] = true
			switch x := v.(type) {
			case *ssa.IndexAddr:
				if _, isC := constInt(x.Index); !isC {
					chosen = x.Index
					return
				}
				walk(x.X, d+1)
			case *ssa.UnOp:
				walk(x.X, d+1)
			case *ssa.FieldAddr:
				walk(x.X, d+1)
			case *ssa.Field:
				walk(x.X, d+1)
			case *ssa.Slice:
				walk(x.X, d+1)
			case *ssa.TypeAssert:
				walk(x.X, d+1)
			case *ssa.Call:
				for _, a := range x.Call.Args {
					walk(a, d+1)
				}
			case *ssa.Alloc:
				for _, st2 := range storesToElems(fn, x) {
					walk(st2.Val, d+1)
				}
				for _, st2 := range storesTo(fn, x) {
					walk(st2.Val, d+1)
				}
			}
		}
		for _, a := range app.Call.Args[1:] {
			walk(a, 0)
		}
		fromSelect := false
		if ex, ok := chosen.(*ssa.Extract); ok && ex.Index == 0 {
			if call, ok := ex.Tuple.(*ssa.Call); ok && c.calleeName(call) == "reflect.Select" {
				fromSelect = true
			}
		}
		nonZero := false
		for _, f := range factsAt(st.Block()) {
			if bo, ok := f.Cond.(*ssa.BinOp); ok && bo.X == chosen {
				if k, ok := constInt(bo.Y); ok && k == 0 {
					if (bo.Op == token.EQL && !f.Val) || (bo.Op == token.NEQ && f.Val) {
						nonZero = true
					}
				}
			}
		}
		r.check(fromSelect && nonZero, key, c.posStr(instrPos(st)), "the appended channel is cases[chosen].Chan for the index reflect.Select returned, on the chosen != 0 edge", "a channel is added to the result that is not the member reflect.Select reported closed (index 0 is the context)")
	}
	if nApp < 2 {
		r.undecided(name+"|appends", c.posStr(fn.Pos()), fmt.Sprintf("expected 2 appends to the result slice, found %d", nApp))
	}
	// (5) cases are (re)built by ranging ws.chans on every call, before the first Select
	var rng *ssa.Range
	for _, ia := range allInstrs(fn) {
		if rg, ok := ia.In.(*ssa.Range); ok {
			if _, ok := loadOfField(rg.X, "WatchSet", "chans"); ok {
				rng = rg
			}
		}
	}
	sels := c.callsNamed(fn, "reflect.Select")
	okBuild := rng != nil && len(sels) >= 1
	for _, s := range sels {
		if rng == nil || !instrDominates(rng, s) {
			okBuild = false
		}
	}
	r.check(okBuild, name+"|cases built from the set on this call", c.posStr(fn.Pos()), "the select cases are filled by ranging ws.chans on a path that dominates every reflect.Select", "the select cases are not rebuilt from ws.chans on every call before selecting: members added since (Add/Merge) are not waited on, or stale members are")
	// (7) reflect.Select accepts at most 65536 cases and panics above: the number of cases (one
	// per member plus the context) must be bounded, or the set waited on in chunks
	{
		bounded := false
		for _, ia := range allInstrs(fn) {
			if bo, ok := ia.In.(*ssa.BinOp); ok {
				switch bo.Op {
				case token.LSS, token.LEQ, token.GTR, token.GEQ:
					for _, pair := range [][2]ssa.Value{{bo.X, bo.Y}, {bo.Y, bo.X}} {
						if k, ok := constInt(pair[1]); ok && k >= 1024 && k <= 65536 {
							if call, ok := pair[0].(*ssa.Call); ok {
								if b, ok := call.Call.Value.(*ssa.Builtin); ok && b.Name() == "len" {
									bounded = true
								}
							}
						}
					}
				}
			}
			if call, ok := ia.In.(*ssa.Call); ok {
				if f := staticCallee(call); f != nil && c.inModule(f) && strings.Contains(strings.ToLower(f.Name()), "select") {
					bounded = true // a helper that splits the cases
				}
			}
		}
		r.check(bounded, name+"|number of select cases is bounded", c.posStr(fn.Pos()), "the case list is split or bounded before reflect.Select", "Wait hands one select case per member (plus the context) to reflect.Select, which panics with 'too many cases (max 65536)': a set with 65536 or more channels (Add and Merge accept any number) cannot be waited on")
	}
	// (6) every member of the set gets a select case: the slice is cut to 1+len(ws.chans), so an
	// iteration of the fill loop that stores nothing leaves a stale or zero case behind
	filled := false
	pos := fn.Pos()
	if rng != nil {
		var hdr *ssa.BasicBlock
		for _, ref := range *rng.Referrers() {
			if nx, ok := ref.(*ssa.Next); ok {
				hdr = nx.Block()
			}
		}
		if hdr != nil {
			loop := naturalLoop(hdr)
			var fill *ssa.Store
			for _, ia := range allInstrs(fn) {
				st, ok := ia.In.(*ssa.Store)
				if !ok || !loop[st.Block()] {
					continue
				}
				if ix, ok := st.Addr.(*ssa.IndexAddr); ok && namedTypeName(st.Val.Type()) == "SelectCase" {
					if _, isConst := ix.Index.(*ssa.Const); !isConst {
						fill = st
					}
				}
			}
			if fill != nil {
				pos = fill.Pos()
				filled = true
				for _, p := range hdr.Preds {
					if loop[p] && p != hdr && !fill.Block().Dominates(p) {
						filled = false
					}
				}
			}
		}
	}
	r.check(filled, name+"|every member gets a select case", c.posStr(pos), "each iteration over ws.chans stores one case (no member is skipped)", "the fill loop can skip a member (continue) while the case slice is still cut to 1+len(ws.chans): the uncovered slot holds a stale case of an earlier Wait (a channel that is no longer a member is returned) or a zero case (reflect.Select panics)")

}

func ruleEncNormal(c *Ctx, r *Reporter) {
	for _, spec := range [][2]string{{"NetIP", "net.(IP).To16"}, {"NetIPAddr", "net/netip.(Addr).As16"}, {"NetIPPrefix", "net/netip.(Addr).As16"}} {
		fn := c.Func("index", "", spec[0])
		if fn == nil {
			r.anchorMissing("index." + spec[0])
			continue
		}
		calls := c.callsNamed(fn, spec[1])
		r.check(len(calls) > 0, "index."+spec[0]+"|normalised to 16 bytes", c.posStr(fn.Pos()), "the key is built from the "+spec[1]+" form", "the encoder no longer normalises the address with "+spec[1]+": equal addresses in different representations give different keys of different width")
	}
}

// condKey canonicalises `x.f == nil` / `x.f != nil` tests so that repeated
// loads of the same field (go/ssa does no CSE) are recognised as one condition.
func condKey(v ssa.Value) (string, bool, bool) {
	bo, ok := v.(*ssa.BinOp)
	if !ok || (bo.Op != token.EQL && bo.Op != token.NEQ) || !isNilConst(bo.Y) {
		return "", false, false
	}
	p, ok := isLoad(bo.X)
	if !ok {
		return "", false, false
	}
	if _, ok := p.(*ssa.FieldAddr); !ok {
		return "", false, false
	}
	return canonAddr(p), bo.Op == token.EQL, true
}

// singletonPaths enumerates entry->migration paths (same function only) with
// consistent nil-tests; a caller insert on such a path before the migration
// must have passed the false edge of a bytes.Equal test.
func singletonPaths(c *Ctx, fn *ssa.Function, mig *ssa.Call, others []*ssa.Call) (*ssa.Call, bool) {
	for _, o := range others {
		if o.Parent() != fn {
			return nil, false
		}
	}
	if mig.Parent() != fn {
		return nil, false
	}
	isOther := map[ssa.Instruction]*ssa.Call{}
	for _, o := range others {
		isOther[o] = o
	}
	var bad *ssa.Call
	type st struct {
		nilFacts map[string]bool
		pending  *ssa.Call // caller insert seen and not licensed
		equalNo  bool
		visits   map[*ssa.BasicBlock]int
	}
	var walk func(b *ssa.BasicBlock, s st)
	steps := 0
	walk = func(b *ssa.BasicBlock, s st) {
		steps++
		if steps > 100000 || bad != nil {
			return
		}
		s.visits[b]++
		if s.visits[b] > 2 {
			return
		}
		for _, in := range b.Instrs {
			if o, ok := isOther[in]; ok && !s.equalNo {
				s.pending = o
			}
			if in == ssa.Instruction(mig) {
				if s.pending != nil {
					bad = s.pending
				}
				return
			}
		}
		if iff, ok := b.Instrs[len(b.Instrs)-1].(*ssa.If); ok {
			for i, succ := range b.Succs {
				val := i == 0
				ns := st{nilFacts: map[string]bool{}, pending: s.pending, equalNo: s.equalNo, visits: map[*ssa.BasicBlock]int{}}
				for k, v := range s.nilFacts {
					ns.nilFacts[k] = v
				}
				for k, v := range s.visits {
					ns.visits[k] = v
				}
				if k, isEq, ok := condKey(iff.Cond); ok {
					isNil := val == isEq
					if known, ok := ns.nilFacts[k]; ok && known != isNil {
						continue
					}
					ns.nilFacts[k] = isNil
				}
				if call, ok := iff.Cond.(*ssa.Call); ok && c.calleeName(call) == "bytes.Equal" && !val {
					ns.equalNo = true
				}
				walk(succ, ns)
			}
			return
		}
		for _, succ := range b.Succs {
			ns := st{nilFacts: s.nilFacts, pending: s.pending, equalNo: s.equalNo, visits: map[*ssa.BasicBlock]int{}}
			for k, v := range s.visits {
				ns.visits[k] = v
			}
			walk(succ, ns)
		}
	}
	walk(fn.Blocks[0], st{nilFacts: map[string]bool{}, visits: map[*ssa.BasicBlock]int{}})
	return bad, true
}

func ruleDedupSiblings(c *Ctx, r *Reporter) {
	n := 0
	for _, fn := range c.Funcs {
		if fn.Package() == nil || shortPkg(fn.Package().Pkg.Path()) != "statedb" {
			continue
		}
		prims := callsIn(c, fn, "statedb.(nonUniqueKey).encodedPrimary")
		if len(prims) == 0 {
			continue
		}
		n++
		key := c.fnName(fn) + "|de-duplicates with a visited set"
		// string(primary) converted, used in a Lookup(commaok) and a MapUpdate on the same map type
		var lk *ssa.Lookup
		var mu *ssa.MapUpdate
		fromPrim := func(v ssa.Value) bool {
			cv, ok := v.(*ssa.Convert)
			if !ok {
				return false
			}
			for _, p := range prims {
				if cv.X == ssa.Value(p) {
					return true
				}
			}
			return false
		}
		for _, ia := range allInstrs(fn) {
			switch x := ia.In.(type) {
			case *ssa.Lookup:
				if x.CommaOk && fromPrim(x.Index) {
					lk = x
				}
			case *ssa.MapUpdate:
				if fromPrim(x.Key) {
					mu = x
				}
			}
		}
		good := lk != nil && mu != nil && types.Identical(lk.X.Type(), mu.Map.Type())
		r.check(good, key, c.posStr(fn.Pos()), "visited[string(primary)] is consulted and updated for every candidate", "the iterator extracts the primary key for de-duplication but does not keep a visited *set* like its sibling iterators: an object reachable through several index keys can be yielded more than once")
	}
	if n < 3 {
		r.undecided("iterators", "-", fmt.Sprintf("expected 3 de-duplicating iterators, found %d", n))
	}
}

func ruleReprEq(c *Ctx, r *Reporter) {
	// the deep comparison is over the values in every representation: the key of a pair is
	// identified by its bytes (compared separately), so comparing whole {Key, Value} pairs in one
	// representation and values only in the other makes equality depend on the representation
	if fn := c.Func("part", "Map", "SlowEqual"); fn != nil {
		n, bad := 0, 0
		var pos ssa.Instruction
		for _, f := range withAnon(fn) {
			for _, ia := range allInstrs(f) {
				call, ok := ia.In.(*ssa.Call)
				if !ok || c.calleeName(call) != "reflect.DeepEqual" {
					continue
				}
				n++
				for _, a := range call.Call.Args {
					v := a
					for i := 0; i < 3; i++ {
						switch x := v.(type) {
						case *ssa.MakeInterface:
							v = x.X
						case *ssa.ChangeType:
							v = x.X
						case *ssa.ChangeInterface:
							v = x.X
						}
					}
					isValue := false
					switch x := v.(type) {
					case *ssa.Field:
						_, fname, _ := fieldOf(x)
						isValue = fname == "Value"
					case *ssa.UnOp:
						if fa, ok := x.X.(*ssa.FieldAddr); ok {
							_, fname, _ := fieldOf(fa)
							isValue = fname == "Value"
						}
					}
					if !isValue {
						bad++
						pos = call
					}
				}
			}
		}
		key := "part.(Map).SlowEqual|values are compared the same way in every representation"
		switch {
		case n < 2:
			r.undecidedP([]string{"C17"}, key, c.posStr(fn.Pos()), fmt.Sprintf("expected a DeepEqual in the singleton and in the tree branch, found %d", n))
		case bad == 0:
			r.okP([]string{"C17"}, key, c.posStr(fn.Pos()), "every DeepEqual compares the Value fields of two pairs")
		default:
			r.badP([]string{"C17"}, key, c.posStr(instrPos(pos)), "a DeepEqual compares whole {Key, Value} pairs while the other representation compares values only: maps with the same contents are equal or unequal depending on whether they are singletons or trees (nil vs empty []byte key, NaN key, YAML round trip)")
		}
	}
	for _, spec := range [][2]string{{"Set", "Equal"}, {"Map", "EqualKeys"}, {"Map", "SlowEqual"}} {
		fn := c.Func("part", spec[0], spec[1])
		if fn == nil {
			r.anchorMissing("part.(" + spec[0] + ")." + spec[1])
			continue
		}
		key := c.fnName(fn) + "|negative answers are backed by a comparison"
		isCompare := func(v ssa.Value) bool {
			switch x := v.(type) {
			case *ssa.Call:
				n := c.calleeName(x)
				return n == "bytes.Equal" || n == "reflect.DeepEqual"
			case *ssa.BinOp:
				// Len() != Len()
				l, ok1 := x.X.(*ssa.Call)
				rr, ok2 := x.Y.(*ssa.Call)
				if ok1 && ok2 {
					lf, rf := staticCallee(l), staticCallee(rr)
					return lf != nil && rf != nil && lf.Name() == "Len" && rf.Name() == "Len"
				}
			}
			return false
		}
		bad := ""
		var badPos ssa.Instruction
		var leaf func(v ssa.Value, blk *ssa.BasicBlock, seen map[ssa.Value]bool)
		leaf = func(v ssa.Value, blk *ssa.BasicBlock, seen map[ssa.Value]bool) {
			if seen[v] {
				return
			}
			seen[v] = true
			switch x := v.(type) {
			case *ssa.Phi:
				for i, e := range x.Edges {
					leaf(e, x.Block().Preds[i], seen)
				}
			case *ssa.Const:
				if x.Value != nil && x.Value.String() == "false" {
					backed := false
					fs := factsAt(blk)
					for _, f := range fs {
						cond, _ := stripNot(f.Cond, f.Val)
						if isCompare(cond) {
							backed = true
						}
					}
					// a short-circuit `a && b` puts the false constant on the edge leaving a's test
					if len(blk.Instrs) > 0 {
						if iff, ok := blk.Instrs[len(blk.Instrs)-1].(*ssa.If); ok {
							cond, _ := stripNot(iff.Cond, true)
							if isCompare(cond) {
								backed = true
							}
						}
					}
					if !backed {
						bad = "returns false without a length/key/value comparison on that path"
					}
				}
			case *ssa.Call:
				if !isCompare(x) {
					bad = "returns the result of " + c.calleeName(x)
				}
			case *ssa.BinOp:
				if isCompare(x) {
					return
				}
				s := x.String()
				_ = s
				for _, op := range []ssa.Value{x.X, x.Y} {
					if p, ok := isLoad(op); ok {
						if fa, ok := p.(*ssa.FieldAddr); ok {
							_, f, _ := fieldOf(fa)
							if f == "hasTree" || f == "singleton" {
								bad = "compares the representation flag `" + f + "` of the two values"
							}
						}
					}
				}
			}
		}
		for _, ret := range returnsOf(fn) {
			before := bad
			leaf(ret.Results[0], ret.Block(), map[ssa.Value]bool{})
			if bad != before && badPos == nil {
				badPos = ret
			}
		}
		if bad == "" {
			r.ok(key, c.posStr(fn.Pos()), "`false` is only returned after a length or key/value comparison failed; representation flags only short-cut to true")
		} else {
			r.bad(key, c.posStr(instrPos(badPos)), "the equality predicate "+bad+": two values holding the same contents in different internal representations (empty tree vs no tree, singleton vs tree) compare unequal")
		}
	}
}

// freeVarHolds: the captured variable fv of closure cl (created in fn) is a
// cell whose stored value satisfies pred.
func freeVarHolds(fn, cl *ssa.Function, fv *ssa.FreeVar, pred func(ssa.Value) bool) bool {
	for _, ia := range allInstrs(fn) {
		mc, ok := ia.In.(*ssa.MakeClosure)
		if !ok || mc.Fn != ssa.Value(cl) {
			continue
		}
		for i, v := range cl.FreeVars {
			if v != fv || i >= len(mc.Bindings) {
				continue
			}
			if a, ok := mc.Bindings[i].(*ssa.Alloc); ok {
				for _, st := range storesTo(fn, a) {
					if pred(st.Val) {
						return true
					}
				}
			}
			if pred(mc.Bindings[i]) {
				return true
			}
		}
	}
	return false
}

func init() {
	register(&Rule{
		ID: "LPM-INDEXER-KEYS", Props: []string{"C18"}, Floor: 2,
		Doc: "every Indexer of an LPM index (a type whose newTableIndex builds an lpmIndex) answers ObjectToKey with nil or with the encoded LPM key (lpm.EncodeLPMKey, directly or through a function of package lpm that returns its result) - the same key the object is stored and queried under - never with the raw data yielded by FromObject",
		Run: ruleLpmIndexerKeys,
	})
}

func ruleLpmIndexerKeys(c *Ctx, r *Reporter) {
	pkg := c.ByPath["github.com/cilium/statedb"]
	if pkg == nil {
		r.anchorMissing("package statedb")
		return
	}
	info := pkg.TypesInfo
	// functions of package lpm all of whose results are EncodeLPMKey calls
	var encodes func(f *types.Func, depth int) bool
	encodes = func(f *types.Func, depth int) bool {
		if f == nil || f.Pkg() == nil || shortPkg(f.Pkg().Path()) != "lpm" || depth > 3 {
			return false
		}
		if f.Name() == "EncodeLPMKey" {
			return true
		}
		fn := c.byObj[f]
		if fn == nil {
			return false
		}
		rets := returnsOf(fn)
		if len(rets) == 0 {
			return false
		}
		for _, ret := range rets {
			vals := retValues(ret)
			if len(vals) != 1 {
				return false
			}
			call, ok := vals[0].(*ssa.Call)
			if !ok {
				return false
			}
			sc := staticCallee(call)
			if sc == nil {
				return false
			}
			o, _ := origin(sc).Object().(*types.Func)
			if !encodes(o, depth+1) {
				return false
			}
		}
		return true
	}
	n := 0
	for fn, fd := range c.declOf {
		if fd.Name.Name != "ObjectToKey" || fd.Recv == nil || fd.Body == nil || fn.Package() == nil || fn.Package().Pkg != pkg.Types {
			continue
		}
		// LPM indexer: the sibling newTableIndex builds an lpmIndex
		nti := c.Func("statedb", recvTypeName(fn), "newTableIndex")
		if nti == nil {
			continue
		}
		isLPM := false
		for _, ia := range allInstrs(nti) {
			if mi, ok := ia.In.(*ssa.MakeInterface); ok && namedTypeName(mi.X.Type()) == "lpmIndex" {
				isLPM = true
			}
		}
		if !isLPM {
			continue
		}
		n++
		var judge func(e ast.Expr, depth int) (bool, string)
		judge = func(e ast.Expr, depth int) (bool, string) {
			e = ast.Unparen(e)
			switch x := e.(type) {
			case *ast.Ident:
				if x.Name == "nil" && info.Uses[x] == types.Universe.Lookup("nil") {
					return true, ""
				}
				obj := info.Uses[x]
				if obj == nil || depth > 3 {
					return false, "the value of " + x.Name
				}
				// every assignment of that variable
				good, seen := true, false
				why := ""
				ast.Inspect(fd.Body, func(nd ast.Node) bool {
					switch s := nd.(type) {
					case *ast.AssignStmt:
						for i, l := range s.Lhs {
							li, ok := l.(*ast.Ident)
							if !ok || (info.Defs[li] != obj && info.Uses[li] != obj) {
								continue
							}
							seen = true
							if len(s.Rhs) != len(s.Lhs) {
								good, why = false, "a multi-value assignment of "+x.Name
								continue
							}
							if g, w := judge(s.Rhs[i], depth+1); !g {
								good, why = false, w
							}
						}
					case *ast.RangeStmt:
						for _, l := range []ast.Expr{s.Key, s.Value} {
							if li, ok := l.(*ast.Ident); ok && (info.Defs[li] == obj || info.Uses[li] == obj) {
								seen = true
								good, why = false, "the raw value yielded by "+types.ExprString(s.X)
							}
						}
					}
					return true
				})
				if !seen {
					return false, "the value of " + x.Name
				}
				return good, why
			case *ast.CallExpr:
				var f *types.Func
				switch fx := ast.Unparen(x.Fun).(type) {
				case *ast.SelectorExpr:
					f, _ = info.Uses[fx.Sel].(*types.Func)
				case *ast.Ident:
					f, _ = info.Uses[fx].(*types.Func)
				}
				if f != nil && encodes(f, 0) {
					return true, ""
				}
				// a conversion index.Key(x)
				if tv, ok := info.Types[x.Fun]; ok && tv.IsType() && len(x.Args) == 1 {
					return judge(x.Args[0], depth+1)
				}
				return false, "the result of " + types.ExprString(x.Fun)
			}
			return false, types.ExprString(e)
		}
		ord := 0
		ast.Inspect(fd.Body, func(nd ast.Node) bool {
			if _, ok := nd.(*ast.FuncLit); ok {
				return false
			}
			ret, ok := nd.(*ast.ReturnStmt)
			if !ok || len(ret.Results) != 1 {
				return true
			}
			ord++
			g, w := judge(ret.Results[0], 0)
			r.check(g, fmt.Sprintf("%s|return#%d is nil or an encoded LPM key", c.fnName(fn), ord), c.posStr(ret.Pos()), "nil or lpm.EncodeLPMKey(data, prefixLen)", "ObjectToKey of an LPM index returns "+w+" instead of the encoded LPM key: the bytes are not masked to the prefix length and carry no length suffix, so objects with the same LPM key get different keys, different LPM keys collide, and the result is not the key the object is stored under (DecodeLPMKey on it panics)")
			return true
		})
		if ord == 0 {
			r.undecided(c.fnName(fn)+"|returns", c.posStr(fd.Pos()), "no return statement with one result found")
		}
	}
	if n < 2 {
		r.undecided("statedb|LPM indexers", "", fmt.Sprintf("expected at least 2 LPM indexer types with ObjectToKey, found %d", n))
	}
}

func init() {
	register(&Rule{
		ID: "MAP-CANON", Props: []string{"C17"}, Floor: 3,
		Doc: "part.Map keeps one representation per content (empty, singleton, tree of two or more pairs; the equality predicates and Len rely on it): a function that fills a tree with a loop of inserts - a number of distinct keys it does not know - stores it as the Map's tree only under a test of the tree's size or goes on, on every path to its return, through a function that can turn the tree form back into the singleton/empty form",
		Run: ruleMapCanon,
	})
}

func ruleMapCanon(c *Ctx, r *Reporter) {
	// functions that can leave the tree form: they store false to Map.hasTree
	canLeave := map[*ssa.Function]bool{}
	for _, fn := range c.Funcs {
		if fn.Package() == nil || shortPkg(fn.Package().Pkg.Path()) != "part" {
			continue
		}
		for _, ia := range allInstrs(fn) {
			if st, ok := ia.In.(*ssa.Store); ok && isFieldAddrOf(st.Addr, "Map", "hasTree") {
				if k, ok := st.Val.(*ssa.Const); ok && k.Value != nil && k.Value.String() == "false" {
					canLeave[fn] = true
				}
			}
		}
	}
	inLoop := func(b *ssa.BasicBlock) bool { return blockReaches(b, b) }
	n := 0
	for _, fn := range c.Funcs {
		if fn.Package() == nil || shortPkg(fn.Package().Pkg.Path()) != "part" {
			continue
		}
		// an insert into a tree transaction inside a loop
		loopInsert := false
		for _, ia := range allInstrs(fn) {
			call, ok := ia.In.(*ssa.Call)
			if !ok {
				continue
			}
			if sc := staticCallee(call); sc != nil && recvTypeName(origin(sc)) == "Txn" && strings.HasPrefix(sc.Name(), "Insert") && inLoop(call.Block()) {
				loopInsert = true
			}
		}
		if !loopInsert {
			continue
		}
		ord := 0
		for _, ia := range allInstrs(fn) {
			st, ok := ia.In.(*ssa.Store)
			if !ok || !isFieldAddrOf(st.Addr, "Map", "tree") {
				continue
			}
			call, ok := st.Val.(*ssa.Call)
			if !ok {
				continue
			}
			sc := staticCallee(call)
			if sc == nil || recvTypeName(origin(sc)) != "Txn" || (sc.Name() != "Commit" && sc.Name() != "Clone" && sc.Name() != "CommitAndNotify") {
				continue
			}
			n++
			ord++
			// (a) the size was examined on the way to the store
			sized := false
			for _, f := range factsAt(st.Block()) {
				bo, ok := f.Cond.(*ssa.BinOp)
				if !ok {
					continue
				}
				for _, op := range []ssa.Value{bo.X, bo.Y} {
					if lc, ok := op.(*ssa.Call); ok {
						if s := staticCallee(lc); s != nil && s.Name() == "Len" {
							sized = true
						}
					}
					if _, ok := loadOfField(op, "Tree", "size"); ok {
						sized = true
					}
				}
			}
			// (b) every path to a return passes a function that can leave the tree form
			var escape *ssa.Return
			if !sized {
				escape = reachesReturnAvoiding(st, func(in ssa.Instruction) bool {
					cl, ok := in.(ssa.CallInstruction)
					if !ok {
						return false
					}
					s := staticCallee(cl)
					return s != nil && canLeave[origin(s)]
				}, nil)
			}
			key := fmt.Sprintf("%s|tree filled by a loop is stored in canonical form#%d", c.fnName(fn), ord)
			if sized || escape == nil {
				r.ok(key, c.posStr(instrPos(st)), "the size of the tree is tested before the store, or a normalising function runs before every return")
			} else {
				r.bad(key, c.posStr(instrPos(st)), "the tree is filled by a loop of inserts and stored as the Map's tree without looking at its size: when the inserted keys are not distinct (the same key twice in the JSON/YAML input, two map keys with equal bytes) the Map is a tree holding a single pair, a form the equality predicates do not expect - EqualKeys/SlowEqual with the equal singleton Map are false, SlowEqual the other way round ignores the values, and a decoded value is not equal to the value it was encoded from (return at "+c.posStr(escape.Pos())+")")
			}
		}
	}
	if n < 3 {
		r.undecided("part|loop-filled Map trees", "", fmt.Sprintf("expected at least 3 stores of a loop-filled tree into a Map, found %d", n))
	}
}
