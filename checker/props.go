package main

// propDesc says, per property, which structural clauses the checker decides
// and which part of the statement it does not.
type propDesc struct {
	Decides     string
	NotDecided  string
	Assumptions []string
}

var propDescs = map[string]propDesc{
	"C01": {
		Decides:    "no memory reachable from a published root/tree/trie/entry list is written in place anywhere in the module; every constructor that licenses in-place mutation copies; every iterator handed out inside a transaction is frozen first; the write transaction works on private copies; the read API reaches no persistent write and no blocking operation (IMMUT, OWN-CTOR, FREEZE, EPOCH, WTXN-PRIVATE, OWNED-FIELD, READ-PURE, READ-NOBLOCK).",
		NotDecided: "that queries compute the right result from the frozen structure; user objects mutated by the user; data races on non-persistent scratch.",
	},
	"C02": {
		Decides:    "one root Store per commit, inside the root-mutex region together with the Load it merges; index commits before the lock; nothing is notified/closed/published before the Store; Abort reaches no publish/commit/notify/close/persistent write; Commit returns the stored root; no code outside Commit's notify phase closes a watch channel of committed state (ROOT-CS, COMMIT-ORDER, ABORT-PURE, NOTIFY-SITES).",
		NotDecided: "visibility under real schedules at memory-model level; behaviour of later transactions beyond channel/pool state.",
	},
	"C03": {
		Decides:    "closed-transaction and unlocked-table guards dominate all effects and return the documented errors; every error return of modify/delete is preceded by compensation of the primary index and of the revision counter; whether a write is guarded is carried separately from the guard revision (no revision value switches the comparison off); a table that is not part of the transaction is reported with the documented error before its position is used as an index; key lengths are not narrowed to 16 bits (GUARD-ERRORS, REVERT, LEN-NARROW).",
		NotDecided: "return values, read-your-writes, map equivalence - value semantics without a static handle.",
	},
	"C04": {
		Decides:    "every successful write path updates every index family; the two reindex implementations agree, remove exactly keys not in the new set with the same key transform and have no shortcut around insertion/removal; key presence is never encoded as nil-ness; KeySet methods agree on emptiness; a unique entry is removed only by its owner; an LPM lookup falls back to the covering prefix; iterators honour yield's result; the non-unique key encoding is injective and order preserving (INDEX-FAMILIES, REINDEX-SIBLINGS, NIL-SENTINEL, KEYSET-GUARD, ENC-*).",
		NotDecided: "exactness/order of query results, de-duplication logic, LPM traversal.",
	},
	"C05": {
		Decides:    "root loaded after the table locks; publish merges untouched positions from the root read under the mutex and its length depends on that root; locks are released only after publish+notify and only by Commit/Abort; `locked` is set only on entries whose lock is held; registration appends under the mutex; what a library function stores into a table entry of its write transaction is not computed from a read snapshot taken before the lock (WTXN-FRESH) (LOAD-AFTER-LOCK, ROOT-CS, ROOT-MERGE, ROOT-LEN, COMMIT-ORDER, UNLOCK-SITES, WTXN-PRIVATE).",
		NotDecided: "fairness; the Go mutex itself.",
	},
	"C06": {
		Decides:    "store precedes notify precedes unlock; every replaced radix node's channel is retained or queued; Notify closes everything queued and the root channel iff dirty; the LPM index channel is replaced per commit (or under a flag that every trie mutation sets) and the notifier closing the old one is returned; ...Watch APIs hand out the index's own channel, never a closed/fresh one; abort/pre-commit code cannot close; the first transaction of a tree does not take leaves for owned; (known finding) part.Txn.Get hands out a node channel without freezing the working tree (COMMIT-ORDER, WATCH-PAIR, WATCH-REG, NOTIFY-ALL, WATCH-ORIGIN, NOTIFY-SITES, ABORT-PURE, OWN-CTOR, WATCH-FREEZE).",
		NotDecided: "that the right node's channel is chosen for a query (tree-shape dependent); dropped-node registration beyond the frozen count.",
	},
	"C07": {
		Decides:    "both sources and the watch of a change iterator come from the committed root of the transaction passed in, from one table entry; Next has exactly its two return shapes; the delivering closure advances the revisions before yielding and clears the iterator only when exhausted; the two-way merge of updates and deletions (dualIterator.next) is decided completely over its finite abstract state: sources advanced exactly when needed, smaller revision first, correct side flag, only the returned slot consumed (COMMITTED-ONLY, SAME-SNAPSHOT, NEXT-SHAPE, DUAL-MERGE).",
		NotDecided: "that each source is itself in revision order (index semantics), convergence, partial consumption accounting. Also decided: an exhausted iterator answers `nothing new` only from the snapshot it was given; the tracker name stays unique while registered; the root kept for committedRoot() is loaded after the table locks; (known finding) deletions made by the creating transaction before Changes() are lost.",
	},
	"C08": {
		Decides:    "deletes go to both graveyard indexes only under trackers, re-insert cleans both, the collector re-checks by deletion-revision key and scans only up to the minimum over all trackers, triggers are non-blocking and one is requested at Start, tracker names stay unique while registered, graveyard indexes are unreachable from query/count paths (INDEX-FAMILIES/GRAVEYARD-PAIR, GC-SCAN, GRAVEYARD-REFS, TRIGGER-NONBLOCK, START-TRIGGER, CHANGES-INIT).",
		NotDecided: "liveness (eventually discarded, drains to zero); collector/writer races beyond the re-check.",
	},
	"C09": {
		Decides:    "per-path accounting of the table revision in modify/delete (exactly one increment on success, zero net on rejection/no-op), the stored object carries the post-increment value, abort cannot touch it, revision keys are big-endian (REVERT, ABORT-PURE, ENC-ENDIAN).",
		NotDecided: "monotonicity across commits as a history property; uniqueness among live objects.",
	},
	"C10": {
		Decides:    "acyclic lock-class graph; table locks only via the sorted bulk acquire; root-mutex and leaf-mutex regions are non-blocking and call no user code; library transactions always finish and never nest; WriteTxn/Commit/Abort block only on the requested tables' locks and the short mutexes; readers reach no blocking operation; GC triggers are non-blocking; the collector locks one table per transaction; runtime cleanups do not wait for table locks; no explicit panic while a lock is held; every short mutex is released on every exit of the function that took it and the fields it guards are only touched inside its region (LOCK-GRAPH, SORTED-LOCK, LOCK-SITES, MU-NONBLOCK, TXN-PAIR, WTXN-BLOCKS, READ-NOBLOCK, TRIGGER-NONBLOCK, LOCK-PAIR, GUARDED-BY, GC-SCAN, CLEANUP-NONBLOCK).",
		NotDecided: "misuse by callers (user code nesting transactions); starvation.",
	},
	"C11": {
		Decides:    "persistence half: no published radix node is written in place; owning constructors copy; iterators/clones freeze the transaction; committed trees start a new epoch; a committed transaction object is retired (IMMUT, OWN-CTOR, FREEZE, EPOCH, TXN-RETIRE restricted to package part); ranging over an iterator does not modify it (ITER-PURE); the traversal tests for a value with getLeaf() != nil, never isLeaf() (NODE-VALUE-TEST); node conversions keep the leaf, removals clear the vacated slot (NODE-CONVERT, NODE-REMOVE); key lengths are not narrowed to 16 bits (LEN-NARROW); (known finding) forks of one Tree value cannot both be notified (CLOSE-ONCE).",
		NotDecided: "ordered-map semantics; node-size thresholds.",
	},
	"C12": {
		Decides:    "every replaced node's channel is retained or queued for closing; Notify closes all queued channels and the root channel iff dirty; dirty is set before any replacement; close() on node channels only in Notify; a recycled transaction is fully reset; leaves are never taken as owned by cloneNode; (known findings) Notify's close is not idempotent across forks of one Tree value and Txn.Get does not freeze (WATCH-PAIR, WATCH-REG, NOTIFY-ALL, NOTIFY-SITES(c), TXN-RESET, OWN-CTOR, CLOSE-ONCE, WATCH-FREEZE).",
		NotDecided: "which channel a lookup returns; dropped nodes (count only).",
	},
	"C13": {
		Decides:    "persistence half (IMMUT/OWN-CTOR/FREEZE/EPOCH on package lpm and lpmEntry); descent-loop agreement: never descend past, nor return, a node the query diverged from (LPM-DIVERGE); every site that treats a trie node as a stored value tests `imaginary` first (LPM-IMAGINARY); Iterator.All leaves the iterator unmodified (ITER-PURE); Txn.Commit freezes the committed trie; a lookup that ends on a fork node falls back to the covering prefix; prefix-length arithmetic is not carried out in 16 bits (FREEZE, LPM-IMAGINARY, LEN-NARROW); yield results are honoured (YIELD-RETURN); LowerBound always includes a node reached with the whole query matched (LOWERBOUND-COVER).",
		NotDecided: "longest-match / ordering exactness otherwise.",
	},
	"C14": {
		Decides:    "no operation error is dropped; every failure is queued; queue head changes re-arm the timer; popped items are processed; change/success clears; each retry heap is addressed with its own item index and built with its own ordering key and position field, heap Swap/Push/Pop keep positions in step; the retry carries the revision read after the last write and the object version that was written; a round the changes filled up to IncrementalRoundSize still serves one due retry (ERR-FLOW, TIMER-REARM, QUEUE-INDEX-PAIR, QUEUE-CTOR).",
		NotDecided: "convergence, bounds in retry periods, round-size interplay.",
	},
	"C15": {
		Decides:    "the reconciler's table writes are CAS-on-reconciled-revision or guarded inserts, never on un-cloned objects, never deletes; prune is gated on initialization and given the full table; StatusSet is copy-on-write and Pending() gives every status the fresh id unconditionally; a retry is queued with the version of the object the status was written to, at the revision read after that write; the same-request shortcut of the status commit is taken only for a non-zero identifier (RECONCILER-WRITES, PRUNE-GATE, IMMUT, ERR-FLOW, RETRY-BOOK).",
		NotDecided: "that the guards compare the right values for every interleaving.",
	},
	"C16": {
		Decides:    "the bookkeeping the pacing contract rests on: the backoff duration is capped by the maximum; an object's retry state (attempt counter) is forgotten when a new version arrives or an operation succeeds, so the backoff starts over; every failure refreshes the queued item and re-positions it in both heaps; the retry low watermark is the oldest failed item's revision and 0 only when none remains; WaitUntilReconciled's progress is published from the revisions incremental.run actually processed, and the low watermark is published on every update whatever the round's revision; the revision heap is ordered by origRev; a round cut short by the round size is marked and does not publish the revision it stopped at; only Clear and LowWatermark take items out of the by-revision heap; validate() relates the backoff bounds; (known finding) the origin revision of a failed update is the observed version's revision, not the change's (RETRY-BOOK, TIMER-REARM, QUEUE-CTOR, QUEUE-INDEX-PAIR).",
		NotDecided: "every clause about durations: never sooner than the minimum backoff, waits that do not shrink, retry within maximum plus one round - run-time quantities with no static handle.",
	},
	"C17": {
		Decides:    "the singleton pair is never mutated in place; migration-before-insert ordering; no use of a published transaction; the JSON/YAML decoders decode each element into a fresh variable; Set.All honours yield's result; SlowEqual compares values the same way in every representation; equality never answers from the representation flags alone; a Map tree filled by a loop of inserts is stored under a size test or normalised before the return (MAP-CANON) (IMMUT, SINGLETON-FIRST, TXN-RETIRE, DECODE-FRESH, YIELD-RETURN, REPR-EQ, EPOCH, FREEZE).",
		NotDecided: "model exactness, representation switches, JSON/YAML round trip beyond the decode-target clause.",
	},
	"C18": {
		Decides:    "the escape table extracted from appendEncode is prefix-free, order-preserving and avoids the minimal separator (exhaustive over all 256 bytes); encodedLength agrees with it; the composite key is parsed into enc(secondary), separator, enc(primary) and a constant tail that starts below every code word (so a primary key sorts before its extensions), accessor offsets agree with the parsed layout; integer encoders and the LPM key codec are big-endian through encoding/binary and do not narrow or shift a byte out; the typed integer encoders keep every bit of their argument (LEN-NARROW); every ObjectToKey of an LPM indexer returns the encoded LPM key (LPM-INDEXER-KEYS); no encoder writes through the slice it was given (ENC-FRESH) (ENC-TABLE, ENC-AGREE, ENC-LAYOUT, ENC-ENDIAN, ENC-NARROW).",
		NotDecided: "LPM key masking arithmetic; keys of 64 KiB and more.",
	},
	"C19": {
		Decides:    "copy-on-write of the pending list and initialization record; the init channel is closed only by Commit, after the root Store; `init` is cleared only when pending is empty; abort cannot affect it, and the mark-done closure keeps no state outside the transaction and finds its registration by a per-call identity, not by name; Derive reads the input's initialization from the snapshot whose changes it consumed, and an exhausted change iterator answers from the snapshot it is given (IMMUT, COMMIT-ORDER, NOTIFY-SITES, ABORT-PURE, INIT-SHAPE, DERIVE-SNAPSHOT, NEXT-SHAPE).",
		NotDecided: "'exactly when every initializer is done' as a history property.",
	},
	"C20": {
		Decides:    "removed = returned, returned is a subset of (added and selected); a nil result is always paired with the context's error; every member gets a select case; the set's fields are touched only under its mutex; an empty set waits for the context; one settle deadline; (known finding) the number of select cases is not bounded - reflect.Select panics above 65536 (WAIT-REMOVE-RETURN, WAIT-SHAPE, GUARDED-BY).",
		NotDecided: "settle-time behaviour, timing.",
	},
}
