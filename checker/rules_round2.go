package main

// Rules added after the second round of independently seeded changes.

import (
	"fmt"
	"go/token"
	"go/types"
	"strings"

	"golang.org/x/tools/go/ssa"
)

func init() {
	register(&Rule{
		ID: "ITER-PURE", Props: []string{"C11", "C13"}, Floor: 2,
		Doc: "Iterator.All (part and lpm) does not modify the iterator it is called on: it works on a local stack/edge list (copied when it must grow or shrink), so an iterator can be ranged over repeatedly",
		Run: ruleIterPure,
	})
	register(&Rule{
		ID: "NODE-VALUE-TEST", Props: []string{"C11"}, Floor: 3,
		Doc: "the iteration code of part decides whether a node carries a value with getLeaf() != nil (an inner node can carry one), never with isLeaf()",
		Run: ruleNodeValueTest,
	})
	register(&Rule{
		ID: "LPM-IMAGINARY", Props: []string{"C13"}, Floor: 4,
		Doc: "every place of the LPM trie that treats a node as holding a value checks `imaginary` first: exact-match lookups and Delete return 'not found' for an imaginary node, iteration skips it, the longest-match lookup reports !imaginary",
		Run: ruleLpmImaginary,
	})
	register(&Rule{
		ID: "QUEUE-INDEX-PAIR", Props: []string{"C14", "C16"}, Floor: 3,
		Doc: "the retry queue ordered by time is positioned with retryItem.index and the queue ordered by revision with retryItem.revIndex, at every Fix/Remove (directly or through a helper)",
		Run: ruleQueueIndexPair,
	})
}

func ruleIterPure(c *Ctx, r *Reporter) {
	im := c.immutEngine()
	for _, pkg := range []string{"part", "lpm"} {
		fn := c.Func(pkg, "Iterator", "All")
		if fn == nil {
			r.anchorMissing(pkg + ".(Iterator).All")
			continue
		}
		props := []string{"C11"}
		if pkg == "lpm" {
			props = []string{"C13"}
		}
		var bad *writeSite
		n := 0
		for _, w := range im.sites {
			if w.fn != fn {
				continue
			}
			switch w.kind {
			case "store", "append", "copy", "clear":
			default:
				if !strings.HasPrefix(w.kind, "mutator:") {
					continue
				}
			}
			n++
			// anything not provably local: derived from the receiver's memory
			if len(w.c.params) > 0 || len(w.c.shared) > 0 {
				if bad == nil {
					bad = w
				}
			}
		}
		key := pkg + ".(Iterator).All|does not write through the iterator"
		if bad == nil {
			r.okP(props, key, c.posStr(fn.Pos()), fmt.Sprintf("all %d writes in All go to locals or fresh copies", n))
		} else {
			why := "the iterator's own state or a slice it shares"
			if len(bad.c.shared) > 0 {
				why = bad.c.shared[0].msg
			}
			r.badP(props, key, c.posStr(instrPos(bad.in)), "Iterator.All writes through memory that belongs to the iterator ("+why+"): ranging over the same iterator a second time (or a copy of it) yields different entries")
		}
	}
}

func ruleNodeValueTest(c *Ctx, r *Reporter) {
	for _, spec := range []struct {
		recv, name string
		min        int
	}{{"Iterator", "All", 2}, {"Iterator", "Next", 2}, {"", "traverseToMin", 1}} {
		fn := c.Func("part", spec.recv, spec.name)
		if fn == nil {
			r.anchorMissing("part." + spec.name)
			continue
		}
		nGet, nIs := 0, 0
		for _, ia := range allInstrs(fn) {
			call, ok := ia.In.(*ssa.Call)
			if !ok {
				continue
			}
			if sf := staticCallee(call); sf != nil {
				switch c.fnName(sf) {
				case getLeafName:
					// used in a nil test
					if refs := call.Referrers(); refs != nil {
						for _, ref := range *refs {
							if bo, ok := ref.(*ssa.BinOp); ok && (bo.Op == token.NEQ || bo.Op == token.EQL) && isNilConst(bo.Y) {
								nGet++
							}
						}
					}
				case isLeafName:
					nIs++
				}
			}
		}
		r.check(nGet >= spec.min && nIs == 0, c.fnName(fn)+"|value test is getLeaf() != nil", c.posStr(fn.Pos()),
			fmt.Sprintf("%d getLeaf() nil-tests, no isLeaf()", nGet),
			"the traversal decides 'this node carries a value' with isLeaf() (or lost a getLeaf() test): inner nodes that carry a value (a key that is a prefix of other keys) are skipped")
	}
}

func ruleLpmImaginary(c *Ctx, r *Reporter) {
	// (a) exact-match branches of Delete and lpmLookupExact test imaginary before accepting the node
	for _, spec := range [][2]string{{"Txn", "Delete"}, {"", "lpmLookupExact"}} {
		fn := c.Func("lpm", spec[0], spec[1])
		if fn == nil {
			r.anchorMissing("lpm." + spec[1])
			continue
		}
		good := false
		pos := fn.Pos()
		for _, ia := range allInstrs(fn) {
			iff, ok := ia.In.(*ssa.If)
			if !ok {
				continue
			}
			if _, ok := loadOfField(iff.Cond, "lpmNode", "imaginary"); !ok {
				continue
			}
			// dominated by two equality facts on the match length (== key length, == node length)
			eq := 0
			for _, f := range factsAt(iff.Block()) {
				if bo, ok := f.Cond.(*ssa.BinOp); ok && bo.Op == token.EQL && f.Val {
					eq++
				}
			}
			// the imaginary edge must leave the function without a value
			t := iff.Block().Succs[0]
			leaves := false
			if len(t.Instrs) > 0 {
				if ret, ok := t.Instrs[len(t.Instrs)-1].(*ssa.Return); ok {
					leaves = true
					for _, res := range ret.Results {
						if cst, ok := res.(*ssa.Const); ok && cst.Value != nil && cst.Value.String() == "true" {
							leaves = false
						}
					}
				}
			}
			if eq >= 2 && leaves {
				good = true
				pos = instrPos(iff)
			}
		}
		r.check(good, c.fnName(fn)+"|exact match on an imaginary node is 'not found'", c.posStr(pos),
			"the exact-match branch returns without a value when node.imaginary",
			"the exact-match branch accepts an imaginary (fork) node as if it held a value: Delete/LookupExact of an unstored prefix that sits on a fork reports success and the size goes wrong")
	}
	// (b) iteration skips imaginary nodes; Lookup reports !imaginary
	for _, spec := range [][2]string{{"Iterator", "All"}, {"Iterator", "Next"}} {
		fn := c.Func("lpm", spec[0], spec[1])
		if fn == nil {
			r.anchorMissing("lpm.(Iterator)." + spec[1])
			continue
		}
		good := false
		for _, ia := range allInstrs(fn) {
			u, ok := ia.In.(*ssa.UnOp)
			if !ok {
				continue
			}
			if _, ok := loadOfField(u, "lpmNode", "value"); !ok {
				continue
			}
			for _, f := range factsAt(u.Block()) {
				cond, val := stripNot(f.Cond, f.Val)
				if _, ok := loadOfField(cond, "lpmNode", "imaginary"); ok && !val {
					good = true
				}
			}
		}
		r.check(good, c.fnName(fn)+"|imaginary nodes are not yielded", c.posStr(fn.Pos()), "node.value is only read where node.imaginary is false", "the iterator yields (zero) values of imaginary fork nodes")
	}
	if fn := c.Func("lpm", "", "lpmLookup"); fn != nil {
		good := false
		for _, ret := range returnsOf(fn) {
			if len(ret.Results) == 2 {
				if _, ok := loadOfField(ret.Results[0], "lpmNode", "value"); ok {
					v, _ := stripNot(ret.Results[1], true)
					if _, ok := loadOfField(v, "lpmNode", "imaginary"); ok && v != ret.Results[1] {
						good = true
					}
				}
			}
		}
		r.check(good, "lpm.lpmLookup|full-length match reports !imaginary", c.posStr(fn.Pos()), "return node.value, !node.imaginary", "a lookup that ends on a fork node reports its (zero) value as found")
	}
}

func ruleQueueIndexPair(c *Ctx, r *Reporter) {
	pair := map[string]string{"queue": "index", "revQueue": "revIndex"}
	n := 0
	for _, fn := range c.Funcs {
		if fn.Package() == nil || shortPkg(fn.Package().Pkg.Path()) != "reconciler" {
			continue
		}
		for _, ia := range allInstrs(fn) {
			call, ok := ia.In.(*ssa.Call)
			if !ok {
				continue
			}
			var queues, indexes []string
			for _, a := range callArgs(call) {
				a = stripConv(a)
				for q := range pair {
					if _, ok := loadOfField(a, "retries", q); ok {
						queues = append(queues, q)
					}
				}
				for _, ix := range []string{"index", "revIndex"} {
					if _, ok := loadOfField(a, "retryItem", ix); ok {
						indexes = append(indexes, ix)
					}
				}
			}
			if len(queues) == 0 || len(indexes) == 0 {
				continue
			}
			n++
			key := fmt.Sprintf("%s|%s(%s, %s)", c.fnName(fn), c.calleeName(call), strings.Join(queues, ","), strings.Join(indexes, ","))
			good := len(queues) == 1 && len(indexes) == 1 && pair[queues[0]] == indexes[0]
			r.check(good, key, c.posStr(instrPos(call)), "queue and item index belong together", "a retry item's position in one heap is used to address the other heap ("+strings.Join(queues, ",")+" with "+strings.Join(indexes, ",")+"): the wrong entry is fixed/removed and a stale retry survives or a live one is lost")
		}
	}
	if n < 3 {
		r.undecided("calls", "-", fmt.Sprintf("expected at least 3 queue operations addressed by an item index, found %d", n))
	}
}

var _ = types.Typ

func init() {
	register(&Rule{
		ID: "DECODE-FRESH", Props: []string{"C17"}, Floor: 4,
		Doc: "the JSON/YAML decoders of part.Map and part.Set decode every element of the sequence into a variable that is fresh per loop iteration: a reused decode target makes the decoded elements share maps/slices/pointers (encoding/json merges into existing memory), so the decoded collection is not equal to the encoded one",
		Run: ruleDecodeFresh,
	})
}

func ruleDecodeFresh(c *Ctx, r *Reporter) {
	for _, fn := range c.Funcs {
		if fn.Package() == nil || shortPkg(fn.Package().Pkg.Path()) != "part" {
			continue
		}
		if fn.Name() != "UnmarshalJSON" && fn.Name() != "UnmarshalYAML" {
			continue
		}
		var loops []map[*ssa.BasicBlock]bool
		for _, h := range fn.Blocks {
			back := false
			for _, p := range h.Preds {
				if h.Dominates(p) {
					back = true
				}
			}
			if back {
				loops = append(loops, naturalLoop(h))
			}
		}
		k := 0
		for _, ia := range allInstrs(fn) {
			call, ok := ia.In.(*ssa.Call)
			if !ok {
				continue
			}
			name := c.calleeName(call)
			if !strings.HasSuffix(name, ".Decode") && !strings.HasSuffix(name, ".Unmarshal") {
				continue
			}
			inLoop := false
			for _, l := range loops {
				if l[call.Block()] {
					inLoop = true
				}
			}
			if !inLoop {
				continue
			}
			k++
			key := fmt.Sprintf("%s|decode target #%d is fresh per element", c.fnName(fn), k)
			var target *ssa.Alloc
			for _, a := range callArgs(call) {
				v := stripConv(a)
				if mi, ok := v.(*ssa.MakeInterface); ok {
					v = mi.X
				}
				if al, ok := v.(*ssa.Alloc); ok {
					target = al
				}
			}
			if target == nil {
				r.undecided(key, c.posStr(instrPos(call)), "the decode target is not a local variable")
				continue
			}
			good := true
			for _, l := range loops {
				if l[call.Block()] && !l[target.Block()] {
					good = false
				}
			}
			r.check(good, key, c.posStr(instrPos(call)), "the target variable is declared inside the loop", "the decode target is declared outside the loop and reused for every element: decoded elements alias each other's maps/slices/pointers and the decoded collection differs from the encoded one")
		}
	}
}

func init() {
	register(&Rule{
		ID: "QUEUE-CTOR", Props: []string{"C14", "C16"}, Floor: 7,
		Doc: "the two retry heaps are built consistently: retries.queue orders by retryAt (earlier first) and records positions in retryItem.index; retries.revQueue orders by origRev (smaller first) and records positions in retryItem.revIndex; the heap's Swap/Push/Pop keep the recorded positions in step (both swapped items re-indexed, pushed item gets the new last position, popped item gets -1)",
		Run: ruleQueueCtor,
	})
}

func ruleQueueCtor(c *Ctx, r *Reporter) {
	fn := c.Func("reconciler", "", "newRetries")
	if fn == nil {
		r.anchorMissing("reconciler.newRetries")
		return
	}
	// field of the element items[param] loaded in a comparator
	elemField := func(v ssa.Value) (param *ssa.Parameter, field string, ok bool) {
		addr, isL := isLoad(v)
		if !isL {
			return nil, "", false
		}
		fa, isFA := addr.(*ssa.FieldAddr)
		if !isFA {
			return nil, "", false
		}
		_, f, _ := fieldOf(fa)
		el, isL := isLoad(fa.X)
		if !isL {
			return nil, "", false
		}
		ix, isIx := el.(*ssa.IndexAddr)
		if !isIx {
			return nil, "", false
		}
		p, isP := ix.Index.(*ssa.Parameter)
		if !isP {
			return nil, "", false
		}
		return p, f, true
	}
	for _, spec := range []struct{ field, key, index string }{{"queue", "retryAt", "index"}, {"revQueue", "origRev", "revIndex"}} {
		var ctor *ssa.Call
		for _, ia := range allInstrs(fn) {
			if st, ok := ia.In.(*ssa.Store); ok && isFieldAddrOf(st.Addr, "retries", spec.field) {
				if call, ok := st.Val.(*ssa.Call); ok && c.calleeName(call) == "reconciler.newRetryPrioQueue" {
					ctor = call
				}
			}
		}
		name := "reconciler.newRetries|" + spec.field
		if ctor == nil || len(ctor.Call.Args) != 2 {
			r.undecided(name, c.posStr(fn.Pos()), "retries."+spec.field+" is not built by newRetryPrioQueue(less, setIndex) in the constructor")
			continue
		}
		less, _ := ctor.Call.Args[0].(*ssa.Function)
		set, _ := ctor.Call.Args[1].(*ssa.Function)
		if less == nil || set == nil {
			r.undecided(name, c.posStr(instrPos(ctor)), "comparator / index setter are not function literals")
			continue
		}
		// comparator: key(items[i]) before key(items[j])
		goodLess, why := false, "the comparator does not compare "+spec.key+" of items[i] with items[j]"
		for _, ret := range returnsOf(less) {
			var x, y ssa.Value
			switch v := ret.Results[0].(type) {
			case *ssa.BinOp:
				if v.Op == token.LSS {
					x, y = v.X, v.Y
				} else if v.Op == token.GTR {
					x, y = v.Y, v.X
				}
			case *ssa.Call:
				if c.calleeName(v) == "time.(Time).Before" {
					x, y = v.Call.Args[0], v.Call.Args[1]
				} else if c.calleeName(v) == "time.(Time).After" {
					x, y = v.Call.Args[1], v.Call.Args[0]
				}
			}
			if x == nil {
				continue
			}
			px, fx, ok1 := elemField(x)
			py, fy, ok2 := elemField(y)
			if ok1 && ok2 && len(less.Params) == 3 {
				switch {
				case fx != spec.key || fy != spec.key:
					why = "retries." + spec.field + " is ordered by " + fx + "/" + fy + " instead of " + spec.key
				case px == less.Params[1] && py == less.Params[2]:
					goodLess = true
				case px == less.Params[2] && py == less.Params[1]:
					why = "the comparator of retries." + spec.field + " is reversed: the heap's top is the item with the largest " + spec.key
				}
			}
		}
		r.check(goodLess, name+" ordered by "+spec.key, c.posStr(less.Pos()), "less(i, j) = items[i]."+spec.key+" before items[j]."+spec.key, why+" - the timer/low watermark follow the wrong item")
		goodSet := false
		for _, ia := range allInstrs(set) {
			if st, ok := ia.In.(*ssa.Store); ok && isFieldAddrOf(st.Addr, "retryItem", spec.index) && len(set.Params) == 2 && st.Val == ssa.Value(set.Params[1]) {
				if fa := st.Addr.(*ssa.FieldAddr); fa.X == ssa.Value(set.Params[0]) {
					goodSet = true
				}
			}
		}
		for _, ia := range allInstrs(set) {
			if st, ok := ia.In.(*ssa.Store); ok {
				if fa, ok := st.Addr.(*ssa.FieldAddr); ok {
					if _, f, _ := fieldOf(fa); f != spec.index {
						goodSet = false
					}
				}
			}
		}
		r.check(goodSet, name+" positions recorded in "+spec.index, c.posStr(set.Pos()), "setIndex stores the heap position into retryItem."+spec.index+" only", "the position of an item in retries."+spec.field+" is not recorded in retryItem."+spec.index+" (or in the other heap's field): Fix/Remove address the wrong entry")
	}
	// heap methods keep positions in step
	setIndexCalls := func(m *ssa.Function) []*ssa.Call {
		var out []*ssa.Call
		for _, ia := range allInstrs(m) {
			if call, ok := ia.In.(*ssa.Call); ok && !call.Call.IsInvoke() {
				if _, ok := loadOfField(call.Call.Value, "retryPrioQueue", "setIndex"); ok {
					out = append(out, call)
				}
			}
		}
		return out
	}
	if m := c.Func("reconciler", "retryPrioQueue", "Swap"); m != nil {
		seen := map[*ssa.Parameter]bool{}
		for _, call := range setIndexCalls(m) {
			// setIndex(items[p], p)
			if el, ok := isLoad(call.Call.Args[0]); ok {
				if ix, ok := el.(*ssa.IndexAddr); ok {
					if p, ok := ix.Index.(*ssa.Parameter); ok && call.Call.Args[1] == ssa.Value(p) {
						seen[p] = true
					}
				}
			}
		}
		r.check(len(m.Params) == 3 && seen[m.Params[1]] && seen[m.Params[2]], "reconciler.(retryPrioQueue).Swap|both items re-indexed", c.posStr(m.Pos()), "setIndex(items[i], i) and setIndex(items[j], j) after the swap", "Swap does not record the new position of both swapped items: a later Fix/Remove by recorded position hits another object's entry")
	} else {
		r.anchorMissing("reconciler.(retryPrioQueue).Swap")
	}
	if m := c.Func("reconciler", "retryPrioQueue", "Push"); m != nil {
		good := false
		for _, call := range setIndexCalls(m) {
			if lc, ok := call.Call.Args[1].(*ssa.Call); ok {
				if b, ok := lc.Call.Value.(*ssa.Builtin); ok && b.Name() == "len" {
					if _, ok := loadOfField(lc.Call.Args[0], "retryPrioQueue", "items"); ok {
						// before the append
						good = true
						for _, ia := range allInstrs(m) {
							if ap, ok := ia.In.(*ssa.Call); ok {
								if b, ok := ap.Call.Value.(*ssa.Builtin); ok && b.Name() == "append" && !instrDominates(lc, ap) {
									good = false
								}
							}
						}
					}
				}
			}
		}
		r.check(good, "reconciler.(retryPrioQueue).Push|pushed item gets the last position", c.posStr(m.Pos()), "setIndex(item, len(items)) before the append", "Push does not record len(items) (taken before the append) as the new item's position")
	} else {
		r.anchorMissing("reconciler.(retryPrioQueue).Push")
	}
	if m := c.Func("reconciler", "retryPrioQueue", "Pop"); m != nil {
		good := false
		for _, call := range setIndexCalls(m) {
			if k, ok := constInt(call.Call.Args[1]); ok && k == -1 {
				good = true
			}
		}
		r.check(good, "reconciler.(retryPrioQueue).Pop|popped item marked as not queued", c.posStr(m.Pos()), "setIndex(item, -1)", "Pop does not mark the removed item as not queued (-1): a later Add calls Fix with a stale position instead of pushing the item again - the retry is lost")
	} else {
		r.anchorMissing("reconciler.(retryPrioQueue).Pop")
	}
}

func init() {
	register(&Rule{
		ID: "ENC-FRESH", Props: []string{"C18"}, Floor: 30,
		Doc: "the key encoders build their result in memory of their own: no store, append (including binary.AppendUintNN), copy or in-place helper in an encoder writes through a slice it was given - otherwise two keys encoded from one buffer overwrite each other and decode(encode(x)) != x",
		Run: ruleEncFresh,
	})
}

func ruleEncFresh(c *Ctx, r *Reporter) {
	im := c.immutEngine()
	isEncoder := func(fn *ssa.Function) bool {
		if fn.Package() == nil || fn.Parent() != nil || fn.Object() == nil {
			return false
		}
		pk := shortPkg(fn.Package().Pkg.Path())
		switch {
		case pk == "index" && fn.Object().Exported():
			// every exported function of package index that returns a Key/KeySet
			res := fn.Signature.Results()
			for i := 0; i < res.Len(); i++ {
				if n := namedTypeName(res.At(i).Type()); n == "Key" || n == "KeySet" {
					return true
				}
			}
		case pk == "lpm" && (fn.Name() == "EncodeLPMKey" || fn.Name() == "NetIPPrefixToIndexKey"):
			return true
		case pk == "statedb" && (fn.Name() == "encodeNonUniqueKey" || fn.Name() == "encodeNonUniqueBytes"):
			return true
		}
		return false
	}
	byFn := map[*ssa.Function][]*writeSite{}
	for _, w := range im.sites {
		byFn[w.fn] = append(byFn[w.fn], w)
	}
	n := 0
	for _, fn := range c.Funcs {
		if !isEncoder(fn) {
			continue
		}
		n++
		var bad *writeSite
		for _, w := range byFn[fn] {
			if strings.HasPrefix(w.kind, "call:") {
				continue
			}
			if len(w.c.params) > 0 && bad == nil {
				bad = w
			}
		}
		key := c.fnName(fn) + "|does not write through its input"
		if bad == nil {
			r.ok(key, c.posStr(fn.Pos()), fmt.Sprintf("%d writes, all into memory allocated by the encoder", len(byFn[fn])))
		} else {
			r.bad(key, c.posStr(instrPos(bad.in)), "the encoder writes ("+bad.kind+") through memory it was handed by its caller: encoding a second key from the same buffer overwrites the first, and the caller's data is modified")
		}
	}
	if n < 3 {
		r.undecided("encoders", "-", fmt.Sprintf("expected at least 3 key encoders, found %d", n))
	}
}
