package main

// Rules added after the second round of independently seeded changes.

import (
	"fmt"
	"go/token"
	"go/types"
	"strings"

	"golang.org/x/tools/go/ssa"
)

func init() {
	register(&Rule{
		ID: "ITER-PURE", Props: []string{"C11", "C13"}, Floor: 2,
		Doc: "Iterator.All (part and lpm) does not modify the iterator it is called on: it works on a local stack/edge list (copied when it must grow or shrink), so an iterator can be ranged over repeatedly",
		Run: ruleIterPure,
	})
	register(&Rule{
		ID: "NODE-VALUE-TEST", Props: []string{"C11"}, Floor: 3,
		Doc: "the iteration code of part decides whether a node carries a value with getLeaf() != nil (an inner node can carry one), never with isLeaf()",
		Run: ruleNodeValueTest,
	})
	register(&Rule{
		ID: "LPM-IMAGINARY", Props: []string{"C13"}, Floor: 4,
		Doc: "every place of the LPM trie that treats a node as holding a value checks `imaginary` first: exact-match lookups and Delete return 'not found' for an imaginary node, iteration skips it, the longest-match lookup reports !imaginary",
		Run: ruleLpmImaginary,
	})
	register(&Rule{
		ID: "QUEUE-INDEX-PAIR", Props: []string{"C14", "C16"}, Floor: 3,
		Doc: "the retry queue ordered by time is positioned with retryItem.index and the queue ordered by revision with retryItem.revIndex, at every Fix/Remove (directly or through a helper)",
		Run: ruleQueueIndexPair,
	})
}

func ruleIterPure(c *Ctx, r *Reporter) {
	im := c.immutEngine()
	for _, pkg := range []string{"part", "lpm"} {
		fn := c.Func(pkg, "Iterator", "All")
		if fn == nil {
			r.anchorMissing(pkg + ".(Iterator).All")
			continue
		}
		props := []string{"C11"}
		if pkg == "lpm" {
			props = []string{"C13"}
		}
		var bad *writeSite
		n := 0
		for _, w := range im.sites {
			if w.fn != fn {
				continue
			}
			switch w.kind {
			case "store", "append", "copy", "clear":
			default:
				if !strings.HasPrefix(w.kind, "mutator:") {
					continue
				}
			}
			n++
			// anything not provably local: derived from the receiver's memory
			if len(w.c.params) > 0 || len(w.c.shared) > 0 {
				if bad == nil {
					bad = w
				}
			}
		}
		key := pkg + ".(Iterator).All|does not write through the iterator"
		if bad == nil {
			r.okP(props, key, c.posStr(fn.Pos()), fmt.Sprintf("all %d writes in All go to locals or fresh copies", n))
		} else {
			why := "the iterator's own state or a slice it shares"
			if len(bad.c.shared) > 0 {
				why = bad.c.shared[0].msg
			}
			r.badP(props, key, c.posStr(instrPos(bad.in)), "Iterator.All writes through memory that belongs to the iterator ("+why+"): ranging over the same iterator a second time (or a copy of it) yields different entries")
		}
	}
}

func ruleNodeValueTest(c *Ctx, r *Reporter) {
	for _, spec := range []struct {
		recv, name string
		min        int
	}{{"Iterator", "All", 2}, {"Iterator", "Next", 2}, {"", "traverseToMin", 1}} {
		fn := c.Func("part", spec.recv, spec.name)
		if fn == nil {
			r.anchorMissing("part." + spec.name)
			continue
		}
		nGet, nIs := 0, 0
		for _, ia := range allInstrs(fn) {
			call, ok := ia.In.(*ssa.Call)
			if !ok {
				continue
			}
			if sf := staticCallee(call); sf != nil {
				switch c.fnName(sf) {
				case getLeafName:
					// used in a nil test
					if refs := call.Referrers(); refs != nil {
						for _, ref := range *refs {
							if bo, ok := ref.(*ssa.BinOp); ok && (bo.Op == token.NEQ || bo.Op == token.EQL) && isNilConst(bo.Y) {
								nGet++
							}
						}
					}
				case isLeafName:
					nIs++
				}
			}
		}
		r.check(nGet >= spec.min && nIs == 0, c.fnName(fn)+"|value test is getLeaf() != nil", c.posStr(fn.Pos()),
			fmt.Sprintf("%d getLeaf() nil-tests, no isLeaf()", nGet),
			"the traversal decides 'this node carries a value' with isLeaf() (or lost a getLeaf() test): inner nodes that carry a value (a key that is a prefix of other keys) are skipped")
	}
}

func ruleLpmImaginary(c *Ctx, r *Reporter) {
	// (a) exact-match branches of Delete and lpmLookupExact test imaginary before accepting the node
	for _, spec := range [][2]string{{"Txn", "Delete"}, {"", "lpmLookupExact"}} {
		fn := c.Func("lpm", spec[0], spec[1])
		if fn == nil {
			r.anchorMissing("lpm." + spec[1])
			continue
		}
		good := false
		pos := fn.Pos()
		for _, ia := range allInstrs(fn) {
			iff, ok := ia.In.(*ssa.If)
			if !ok {
				continue
			}
			if _, ok := loadOfField(iff.Cond, "lpmNode", "imaginary"); !ok {
				continue
			}
			// dominated by two equality facts on the match length (== key length, == node length)
			eq := 0
			for _, f := range factsAt(iff.Block()) {
				if bo, ok := f.Cond.(*ssa.BinOp); ok && bo.Op == token.EQL && f.Val {
					eq++
				}
			}
			// the imaginary edge must leave the function without a value
			t := iff.Block().Succs[0]
			leaves := false
			if len(t.Instrs) > 0 {
				if ret, ok := t.Instrs[len(t.Instrs)-1].(*ssa.Return); ok {
					leaves = true
					for _, res := range ret.Results {
						if cst, ok := res.(*ssa.Const); ok && cst.Value != nil && cst.Value.String() == "true" {
							leaves = false
						}
					}
				}
			}
			if eq >= 2 && leaves {
				good = true
				pos = instrPos(iff)
			}
		}
		r.check(good, c.fnName(fn)+"|exact match on an imaginary node is 'not found'", c.posStr(pos),
			"the exact-match branch returns without a value when node.imaginary",
			"the exact-match branch accepts an imaginary (fork) node as if it held a value: Delete/LookupExact of an unstored prefix that sits on a fork reports success and the size goes wrong")
	}
	// (b) iteration skips imaginary nodes; Lookup reports !imaginary
	for _, spec := range [][2]string{{"Iterator", "All"}, {"Iterator", "Next"}} {
		fn := c.Func("lpm", spec[0], spec[1])
		if fn == nil {
			r.anchorMissing("lpm.(Iterator)." + spec[1])
			continue
		}
		good := false
		for _, ia := range allInstrs(fn) {
			u, ok := ia.In.(*ssa.UnOp)
			if !ok {
				continue
			}
			if _, ok := loadOfField(u, "lpmNode", "value"); !ok {
				continue
			}
			for _, f := range factsAt(u.Block()) {
				cond, val := stripNot(f.Cond, f.Val)
				if _, ok := loadOfField(cond, "lpmNode", "imaginary"); ok && !val {
					good = true
				}
			}
		}
		r.check(good, c.fnName(fn)+"|imaginary nodes are not yielded", c.posStr(fn.Pos()), "node.value is only read where node.imaginary is false", "the iterator yields (zero) values of imaginary fork nodes")
	}
	if fn := c.Func("lpm", "", "lpmLookup"); fn != nil {
		// longest-prefix match: a value is reported only from a node that holds one, and "not found"
		// only when no covering prefix was seen on the way down (a fork node where the key ends must
		// fall back to the closest covering prefix)
		notImaginaryAt := func(node ssa.Value, b *ssa.BasicBlock) bool {
			for _, f := range factsAt(b) {
				cond, val := stripNot(f.Cond, f.Val)
				if x, ok := loadOfField(cond, "lpmNode", "imaginary"); ok && !val && x == node {
					return true
				}
			}
			return false
		}
		bad := ""
		var badPos ssa.Instruction
		n := 0
		for _, ret := range returnsOf(fn) {
			if len(ret.Results) != 2 {
				continue
			}
			n++
			okc, isConst := ret.Results[1].(*ssa.Const)
			switch {
			case !isConst:
				bad, badPos = "the result of a lookup that ends exactly on a node is decided by that node's imaginary flag alone: on a fork node it reports 'not found' although a shorter stored prefix covers the key", ret
			case okc.Value != nil && okc.Value.String() == "true":
				node, ok := loadOfField(ret.Results[0], "lpmNode", "value")
				if !ok {
					bad, badPos = "a value is returned that is not a node's value", ret
					break
				}
				good := notImaginaryAt(node, ret.Block())
				if phi, isPhi := node.(*ssa.Phi); isPhi && !good {
					// "closest": every node that can flow into it does so under !imaginary
					good = true
					seen := map[*ssa.Phi]bool{}
					var walk func(p *ssa.Phi)
					walk = func(p *ssa.Phi) {
						if seen[p] {
							return
						}
						seen[p] = true
						for i, e := range p.Edges {
							if isNilConst(e) {
								continue
							}
							if notImaginaryAt(e, p.Block().Preds[i]) {
								continue
							}
							if ep, ok := e.(*ssa.Phi); ok {
								walk(ep)
								continue
							}
							good = false
						}
					}
					walk(phi)
				}
				if !good {
					bad, badPos = "the value of a node is returned as found without knowing that the node is not imaginary", ret
				}
			default: // constant false
				covered := false
				for _, f := range factsAt(ret.Block()) {
					if bo, ok := f.Cond.(*ssa.BinOp); ok && isNilConst(bo.Y) {
						if _, isPhi := bo.X.(*ssa.Phi); isPhi && ((bo.Op == token.EQL && f.Val) || (bo.Op == token.NEQ && !f.Val)) {
							covered = true
						}
					}
				}
				if !covered {
					bad, badPos = "'not found' is returned without checking the closest covering prefix remembered on the way down", ret
				}
			}
		}
		if n == 0 {
			r.undecided("lpm.lpmLookup|longest match falls back to the covering prefix", c.posStr(fn.Pos()), "no two-result return found")
		} else if bad == "" {
			r.ok("lpm.lpmLookup|longest match falls back to the covering prefix", c.posStr(fn.Pos()), "values are reported only from non-imaginary nodes and 'not found' only when no covering prefix was seen")
		} else {
			r.bad("lpm.lpmLookup|longest match falls back to the covering prefix", c.posStr(instrPos(badPos)), bad)
		}
	}
}

func ruleQueueIndexPair(c *Ctx, r *Reporter) {
	pair := map[string]string{"queue": "index", "revQueue": "revIndex"}
	n := 0
	for _, fn := range c.Funcs {
		if fn.Package() == nil || shortPkg(fn.Package().Pkg.Path()) != "reconciler" {
			continue
		}
		for _, ia := range allInstrs(fn) {
			call, ok := ia.In.(*ssa.Call)
			if !ok {
				continue
			}
			var queues, indexes []string
			for _, a := range callArgs(call) {
				a = stripConv(a)
				for q := range pair {
					if _, ok := loadOfField(a, "retries", q); ok {
						queues = append(queues, q)
					}
				}
				for _, ix := range []string{"index", "revIndex"} {
					if _, ok := loadOfField(a, "retryItem", ix); ok {
						indexes = append(indexes, ix)
					}
				}
			}
			if len(queues) == 0 || len(indexes) == 0 {
				continue
			}
			n++
			key := fmt.Sprintf("%s|%s(%s, %s)", c.fnName(fn), c.calleeName(call), strings.Join(queues, ","), strings.Join(indexes, ","))
			good := len(queues) == 1 && len(indexes) == 1 && pair[queues[0]] == indexes[0]
			r.check(good, key, c.posStr(instrPos(call)), "queue and item index belong together", "a retry item's position in one heap is used to address the other heap ("+strings.Join(queues, ",")+" with "+strings.Join(indexes, ",")+"): the wrong entry is fixed/removed and a stale retry survives or a live one is lost")
		}
	}
	if n < 3 {
		r.undecided("calls", "-", fmt.Sprintf("expected at least 3 queue operations addressed by an item index, found %d", n))
	}
}

var _ = types.Typ

func init() {
	register(&Rule{
		ID: "DECODE-FRESH", Props: []string{"C17"}, Floor: 4,
		Doc: "the JSON/YAML decoders of part.Map and part.Set decode every element of the sequence into a variable that is fresh per loop iteration: a reused decode target makes the decoded elements share maps/slices/pointers (encoding/json merges into existing memory), so the decoded collection is not equal to the encoded one",
		Run: ruleDecodeFresh,
	})
}

func ruleDecodeFresh(c *Ctx, r *Reporter) {
	for _, fn := range c.Funcs {
		if fn.Package() == nil || shortPkg(fn.Package().Pkg.Path()) != "part" {
			continue
		}
		if fn.Name() != "UnmarshalJSON" && fn.Name() != "UnmarshalYAML" {
			continue
		}
		var loops []map[*ssa.BasicBlock]bool
		for _, h := range fn.Blocks {
			back := false
			for _, p := range h.Preds {
				if h.Dominates(p) {
					back = true
				}
			}
			if back {
				loops = append(loops, naturalLoop(h))
			}
		}
		k := 0
		for _, ia := range allInstrs(fn) {
			call, ok := ia.In.(*ssa.Call)
			if !ok {
				continue
			}
			name := c.calleeName(call)
			if !strings.HasSuffix(name, ".Decode") && !strings.HasSuffix(name, ".Unmarshal") {
				continue
			}
			inLoop := false
			for _, l := range loops {
				if l[call.Block()] {
					inLoop = true
				}
			}
			if !inLoop {
				continue
			}
			k++
			key := fmt.Sprintf("%s|decode target #%d is fresh per element", c.fnName(fn), k)
			var target *ssa.Alloc
			for _, a := range callArgs(call) {
				v := stripConv(a)
				if mi, ok := v.(*ssa.MakeInterface); ok {
					v = mi.X
				}
				if al, ok := v.(*ssa.Alloc); ok {
					target = al
				}
			}
			if target == nil {
				r.undecided(key, c.posStr(instrPos(call)), "the decode target is not a local variable")
				continue
			}
			good := true
			for _, l := range loops {
				if l[call.Block()] && !l[target.Block()] {
					good = false
				}
			}
			r.check(good, key, c.posStr(instrPos(call)), "the target variable is declared inside the loop", "the decode target is declared outside the loop and reused for every element: decoded elements alias each other's maps/slices/pointers and the decoded collection differs from the encoded one")
		}
	}
}

func init() {
	register(&Rule{
		ID: "QUEUE-CTOR", Props: []string{"C14", "C16"}, Floor: 7,
		Doc: "the two retry heaps are built consistently: retries.queue orders by retryAt (earlier first) and records positions in retryItem.index; retries.revQueue orders by origRev (smaller first) and records positions in retryItem.revIndex; the heap's Swap/Push/Pop keep the recorded positions in step (both swapped items re-indexed, pushed item gets the new last position, popped item gets -1)",
		Run: ruleQueueCtor,
	})
}

func ruleQueueCtor(c *Ctx, r *Reporter) {
	fn := c.Func("reconciler", "", "newRetries")
	if fn == nil {
		r.anchorMissing("reconciler.newRetries")
		return
	}
	// field of the element items[param] loaded in a comparator
	elemField := func(v ssa.Value) (param *ssa.Parameter, field string, ok bool) {
		addr, isL := isLoad(v)
		if !isL {
			return nil, "", false
		}
		fa, isFA := addr.(*ssa.FieldAddr)
		if !isFA {
			return nil, "", false
		}
		_, f, _ := fieldOf(fa)
		el, isL := isLoad(fa.X)
		if !isL {
			return nil, "", false
		}
		ix, isIx := el.(*ssa.IndexAddr)
		if !isIx {
			return nil, "", false
		}
		p, isP := ix.Index.(*ssa.Parameter)
		if !isP {
			return nil, "", false
		}
		return p, f, true
	}
	for _, spec := range []struct{ field, key, index string }{{"queue", "retryAt", "index"}, {"revQueue", "origRev", "revIndex"}} {
		var ctor *ssa.Call
		for _, ia := range allInstrs(fn) {
			if st, ok := ia.In.(*ssa.Store); ok && isFieldAddrOf(st.Addr, "retries", spec.field) {
				if call, ok := st.Val.(*ssa.Call); ok && c.calleeName(call) == "reconciler.newRetryPrioQueue" {
					ctor = call
				}
			}
		}
		name := "reconciler.newRetries|" + spec.field
		if ctor == nil || len(ctor.Call.Args) != 2 {
			r.undecided(name, c.posStr(fn.Pos()), "retries."+spec.field+" is not built by newRetryPrioQueue(less, setIndex) in the constructor")
			continue
		}
		less, _ := ctor.Call.Args[0].(*ssa.Function)
		set, _ := ctor.Call.Args[1].(*ssa.Function)
		if less == nil || set == nil {
			r.undecided(name, c.posStr(instrPos(ctor)), "comparator / index setter are not function literals")
			continue
		}
		// comparator: key(items[i]) before key(items[j])
		goodLess, why := false, "the comparator does not compare "+spec.key+" of items[i] with items[j]"
		for _, ret := range returnsOf(less) {
			var x, y ssa.Value
			switch v := ret.Results[0].(type) {
			case *ssa.BinOp:
				if v.Op == token.LSS {
					x, y = v.X, v.Y
				} else if v.Op == token.GTR {
					x, y = v.Y, v.X
				}
			case *ssa.Call:
				if c.calleeName(v) == "time.(Time).Before" {
					x, y = v.Call.Args[0], v.Call.Args[1]
				} else if c.calleeName(v) == "time.(Time).After" {
					x, y = v.Call.Args[1], v.Call.Args[0]
				}
			}
			if x == nil {
				continue
			}
			px, fx, ok1 := elemField(x)
			py, fy, ok2 := elemField(y)
			if ok1 && ok2 && len(less.Params) == 3 {
				switch {
				case fx != spec.key || fy != spec.key:
					why = "retries." + spec.field + " is ordered by " + fx + "/" + fy + " instead of " + spec.key
				case px == less.Params[1] && py == less.Params[2]:
					goodLess = true
				case px == less.Params[2] && py == less.Params[1]:
					why = "the comparator of retries." + spec.field + " is reversed: the heap's top is the item with the largest " + spec.key
				}
			}
		}
		r.check(goodLess, name+" ordered by "+spec.key, c.posStr(less.Pos()), "less(i, j) = items[i]."+spec.key+" before items[j]."+spec.key, why+" - the timer/low watermark follow the wrong item")
		goodSet := false
		for _, ia := range allInstrs(set) {
			if st, ok := ia.In.(*ssa.Store); ok && isFieldAddrOf(st.Addr, "retryItem", spec.index) && len(set.Params) == 2 && st.Val == ssa.Value(set.Params[1]) {
				if fa := st.Addr.(*ssa.FieldAddr); fa.X == ssa.Value(set.Params[0]) {
					goodSet = true
				}
			}
		}
		for _, ia := range allInstrs(set) {
			if st, ok := ia.In.(*ssa.Store); ok {
				if fa, ok := st.Addr.(*ssa.FieldAddr); ok {
					if _, f, _ := fieldOf(fa); f != spec.index {
						goodSet = false
					}
				}
			}
		}
		r.check(goodSet, name+" positions recorded in "+spec.index, c.posStr(set.Pos()), "setIndex stores the heap position into retryItem."+spec.index+" only", "the position of an item in retries."+spec.field+" is not recorded in retryItem."+spec.index+" (or in the other heap's field): Fix/Remove address the wrong entry")
	}
	// heap methods keep positions in step
	setIndexCalls := func(m *ssa.Function) []*ssa.Call {
		var out []*ssa.Call
		for _, ia := range allInstrs(m) {
			if call, ok := ia.In.(*ssa.Call); ok && !call.Call.IsInvoke() {
				if _, ok := loadOfField(call.Call.Value, "retryPrioQueue", "setIndex"); ok {
					out = append(out, call)
				}
			}
		}
		return out
	}
	if m := c.Func("reconciler", "retryPrioQueue", "Swap"); m != nil {
		seen := map[*ssa.Parameter]bool{}
		for _, call := range setIndexCalls(m) {
			// setIndex(items[p], p)
			if el, ok := isLoad(call.Call.Args[0]); ok {
				if ix, ok := el.(*ssa.IndexAddr); ok {
					if p, ok := ix.Index.(*ssa.Parameter); ok && call.Call.Args[1] == ssa.Value(p) {
						seen[p] = true
					}
				}
			}
		}
		r.check(len(m.Params) == 3 && seen[m.Params[1]] && seen[m.Params[2]], "reconciler.(retryPrioQueue).Swap|both items re-indexed", c.posStr(m.Pos()), "setIndex(items[i], i) and setIndex(items[j], j) after the swap", "Swap does not record the new position of both swapped items: a later Fix/Remove by recorded position hits another object's entry")
	} else {
		r.anchorMissing("reconciler.(retryPrioQueue).Swap")
	}
	if m := c.Func("reconciler", "retryPrioQueue", "Push"); m != nil {
		good := false
		for _, call := range setIndexCalls(m) {
			if lc, ok := call.Call.Args[1].(*ssa.Call); ok {
				if b, ok := lc.Call.Value.(*ssa.Builtin); ok && b.Name() == "len" {
					if _, ok := loadOfField(lc.Call.Args[0], "retryPrioQueue", "items"); ok {
						// before the append
						good = true
						for _, ia := range allInstrs(m) {
							if ap, ok := ia.In.(*ssa.Call); ok {
								if b, ok := ap.Call.Value.(*ssa.Builtin); ok && b.Name() == "append" && !instrDominates(lc, ap) {
									good = false
								}
							}
						}
					}
				}
			}
		}
		r.check(good, "reconciler.(retryPrioQueue).Push|pushed item gets the last position", c.posStr(m.Pos()), "setIndex(item, len(items)) before the append", "Push does not record len(items) (taken before the append) as the new item's position")
	} else {
		r.anchorMissing("reconciler.(retryPrioQueue).Push")
	}
	if m := c.Func("reconciler", "retryPrioQueue", "Pop"); m != nil {
		good := false
		for _, call := range setIndexCalls(m) {
			if k, ok := constInt(call.Call.Args[1]); ok && k == -1 {
				good = true
			}
		}
		r.check(good, "reconciler.(retryPrioQueue).Pop|popped item marked as not queued", c.posStr(m.Pos()), "setIndex(item, -1)", "Pop does not mark the removed item as not queued (-1): a later Add calls Fix with a stale position instead of pushing the item again - the retry is lost")
	} else {
		r.anchorMissing("reconciler.(retryPrioQueue).Pop")
	}
}

func init() {
	register(&Rule{
		ID: "ENC-FRESH", Props: []string{"C18"}, Floor: 30,
		Doc: "the key encoders build their result in memory of their own: no store, append (including binary.AppendUintNN), copy or in-place helper in an encoder writes through a slice it was given - otherwise two keys encoded from one buffer overwrite each other and decode(encode(x)) != x",
		Run: ruleEncFresh,
	})
}

func ruleEncFresh(c *Ctx, r *Reporter) {
	im := c.immutEngine()
	isEncoder := func(fn *ssa.Function) bool {
		if fn.Package() == nil || fn.Parent() != nil || fn.Object() == nil {
			return false
		}
		pk := shortPkg(fn.Package().Pkg.Path())
		switch {
		case pk == "index" && fn.Object().Exported():
			// every exported function of package index that returns a Key/KeySet
			res := fn.Signature.Results()
			for i := 0; i < res.Len(); i++ {
				if n := namedTypeName(res.At(i).Type()); n == "Key" || n == "KeySet" {
					return true
				}
			}
		case pk == "lpm" && (fn.Name() == "EncodeLPMKey" || fn.Name() == "NetIPPrefixToIndexKey"):
			return true
		case pk == "statedb" && (fn.Name() == "encodeNonUniqueKey" || fn.Name() == "encodeNonUniqueBytes"):
			return true
		}
		return false
	}
	byFn := map[*ssa.Function][]*writeSite{}
	for _, w := range im.sites {
		byFn[w.fn] = append(byFn[w.fn], w)
	}
	n := 0
	for _, fn := range c.Funcs {
		if !isEncoder(fn) {
			continue
		}
		n++
		var bad *writeSite
		for _, w := range byFn[fn] {
			if strings.HasPrefix(w.kind, "call:") {
				continue
			}
			if len(w.c.params) > 0 && bad == nil {
				bad = w
			}
		}
		key := c.fnName(fn) + "|does not write through its input"
		if bad == nil {
			r.ok(key, c.posStr(fn.Pos()), fmt.Sprintf("%d writes, all into memory allocated by the encoder", len(byFn[fn])))
		} else {
			r.bad(key, c.posStr(instrPos(bad.in)), "the encoder writes ("+bad.kind+") through memory it was handed by its caller: encoding a second key from the same buffer overwrites the first, and the caller's data is modified")
		}
	}
	if n < 3 {
		r.undecided("encoders", "-", fmt.Sprintf("expected at least 3 key encoders, found %d", n))
	}
}

func init() {
	register(&Rule{
		ID: "OPTIONAL-NIL", Props: []string{"C14", "C15"}, Floor: 2,
		Doc: "a pointer-typed reconciler option that a caller can set to nil (stored from a parameter of an exported With... function) and that config.validate does not reject is dereferenced only under a non-nil test: an optional limiter that is not set must mean 'no throttling', not a crash of the reconcile loop",
		Run: ruleOptionalNil,
	})
}

func ruleOptionalNil(c *Ctx, r *Reporter) {
	// 1. settable pointer fields of reconciler.options
	settable := map[string]bool{}
	for _, fn := range c.Funcs {
		if fn.Package() == nil || shortPkg(fn.Package().Pkg.Path()) != "reconciler" {
			continue
		}
		// closure inside an exported function
		top := fn
		for top.Parent() != nil {
			top = top.Parent()
		}
		if top.Object() == nil || !top.Object().Exported() {
			continue
		}
		for _, ia := range allInstrs(fn) {
			st, ok := ia.In.(*ssa.Store)
			if !ok {
				continue
			}
			fa, ok := st.Addr.(*ssa.FieldAddr)
			if !ok {
				continue
			}
			tn, f, _ := fieldOf(fa)
			if tn != "options" {
				continue
			}
			if _, isPtr := st.Val.Type().Underlying().(*types.Pointer); !isPtr {
				continue
			}
			v := st.Val
			if l, ok := isLoad(v); ok {
				v = l
			}
			switch v.(type) {
			case *ssa.FreeVar, *ssa.Parameter:
				settable[f] = true
			}
		}
	}
	// 2. rejected by validate
	rejected := map[string]bool{}
	if vf := c.fnByName("reconciler.(config).validate"); vf != nil {
		for _, ia := range allInstrs(vf) {
			bo, ok := ia.In.(*ssa.BinOp)
			if !ok || (bo.Op != token.EQL && bo.Op != token.NEQ) || !isNilConst(bo.Y) {
				continue
			}
			if f := optionFieldOf(bo.X); f != "" {
				rejected[f] = true
			}
		}
	}
	// 3. uses
	n := 0
	for _, fn := range c.Funcs {
		if fn.Package() == nil || shortPkg(fn.Package().Pkg.Path()) != "reconciler" {
			continue
		}
		ord := map[string]int{}
		for _, ia := range allInstrs(fn) {
			call, ok := ia.In.(ssa.CallInstruction)
			if !ok || call.Common().IsInvoke() || len(call.Common().Args) == 0 {
				continue
			}
			if call.Common().Signature().Recv() == nil {
				continue
			}
			f := optionFieldOf(call.Common().Args[0])
			if f == "" || !settable[f] || rejected[f] {
				continue
			}
			n++
			ord[f]++
			guarded := false
			for _, fct := range factsAt(ia.In.Block()) {
				bo, ok := fct.Cond.(*ssa.BinOp)
				if !ok || !isNilConst(bo.Y) || optionFieldOf(bo.X) != f {
					continue
				}
				if (bo.Op == token.NEQ && fct.Val) || (bo.Op == token.EQL && !fct.Val) {
					guarded = true
				}
			}
			key := fmt.Sprintf("%s|options.%s used#%d under a nil test", c.fnName(fn), f, ord[f])
			r.check(guarded, key, c.posStr(instrPos(ia.In)), "the optional "+f+" is dereferenced only where it is known to be non-nil", "options."+f+" can be nil (set from the caller's argument, not rejected by validate) but "+c.calleeName(call)+" is called on it unconditionally: a reconciler configured without it crashes on its first round and nothing is ever reconciled")
		}
	}
	if n < 2 {
		r.undecided("uses", "-", fmt.Sprintf("expected at least 2 uses of optional pointer options, found %d", n))
	}
}

// optionFieldOf: v is a load of <...>.options.<f> (through any chain of field addresses).
func optionFieldOf(v ssa.Value) string {
	addr, ok := isLoad(v)
	if !ok {
		if fl, ok := v.(*ssa.Field); ok {
			if tn, f, _ := fieldOf(fl); tn == "options" {
				return f
			}
		}
		return ""
	}
	fa, ok := addr.(*ssa.FieldAddr)
	if !ok {
		return ""
	}
	if tn, f, _ := fieldOf(fa); tn == "options" {
		return f
	}
	return ""
}

func init() {
	register(&Rule{
		ID: "LEN-NARROW", Props: []string{"C11", "C13", "C17", "C18", "C03", "C04"}, Floor: 0,
		Doc: "no length of a key (len(x), possibly through min/arithmetic) is converted to an integer type of 16 bits or fewer without a bound check on that length: a key of 65536 bytes or more would be stored with a length taken modulo 65536 (lookups miss it, iteration returns truncated keys, the two parts of a composite key cannot be separated); no 16-bit arithmetic on prefix lengths in package lpm; no typed integer encoder of package index converts its argument to a narrower integer type (index.Int keeps all 64 bits)",
		Run: ruleLenNarrow,
	})
}

func ruleLenNarrow(c *Ctx, r *Reporter) {
	isLenDerived := func(v ssa.Value) bool {
		var walk func(v ssa.Value, d int) bool
		walk = func(v ssa.Value, d int) bool {
			if d > 4 {
				return false
			}
			switch x := v.(type) {
			case *ssa.Call:
				if b, ok := x.Call.Value.(*ssa.Builtin); ok {
					switch b.Name() {
					case "len":
						// the length of a byte string (key, prefix), not of a slot list
						switch t := x.Call.Args[0].Type().Underlying().(type) {
						case *types.Slice:
							if bt, ok := t.Elem().Underlying().(*types.Basic); ok && bt.Kind() == types.Uint8 {
								return true
							}
						case *types.Basic:
							return t.Info()&types.IsString != 0
						}
						return false
					case "min", "max":
						for _, a := range x.Call.Args {
							if walk(a, d+1) {
								return true
							}
						}
					}
				}
			case *ssa.BinOp:
				return walk(x.X, d+1) || walk(x.Y, d+1)
			case *ssa.Convert:
				return walk(x.X, d+1)
			case *ssa.Phi:
				for _, e := range x.Edges {
					if walk(e, d+1) {
						return true
					}
				}
			case *ssa.Extract:
				// the number of bytes appendEncode appended (ENC-AGREE: its counter equals them)
				if call, ok := x.Tuple.(*ssa.Call); ok && x.Index == 0 {
					if f := staticCallee(call); f != nil && f.Name() == "appendEncode" {
						return true
					}
				}
			}
			return false
		}
		return walk(v, 0)
	}
	n := 0
	for _, fn := range c.Funcs {
		if fn.Package() == nil {
			continue
		}
		pk := shortPkg(fn.Package().Pkg.Path())
		var props []string
		switch pk {
		case "part":
			props = []string{"C11", "C17", "C03", "C04"}
		case "lpm":
			props = []string{"C13"}
		case "statedb", "index":
			props = []string{"C18", "C04"}
		default:
			continue
		}
		ord := 0
		for _, ia := range allInstrs(fn) {
			cv, ok := ia.In.(*ssa.Convert)
			if !ok {
				continue
			}
			bt, ok := cv.Type().Underlying().(*types.Basic)
			if !ok {
				continue
			}
			switch bt.Kind() {
			case types.Uint16, types.Int16, types.Uint8, types.Int8:
			default:
				continue
			}
			if st, ok := cv.X.Type().Underlying().(*types.Basic); !ok || st.Info()&types.IsInteger == 0 {
				continue
			}
			if !isLenDerived(cv.X) {
				continue
			}
			// a bound on the same length established before
			bounded := false
			for _, f := range factsAt(cv.Block()) {
				if bo, ok := f.Cond.(*ssa.BinOp); ok {
					switch bo.Op {
					case token.LSS, token.LEQ, token.GTR, token.GEQ:
						if (isLenDerived(bo.X) && isConstInt(bo.Y)) || (isLenDerived(bo.Y) && isConstInt(bo.X)) {
							bounded = true
						}
					}
				}
			}
			n++
			ord++
			key := fmt.Sprintf("%s|length narrowed to %s#%d", c.fnName(fn), bt.Name(), ord)
			r.checkP(props, bounded, key, c.posStr(instrPos(cv)), "the length is known to fit", "a key length is converted to "+bt.Name()+" without a bound check: for keys of "+map[bool]string{true: "256", false: "65536"}[bt.Kind() == types.Uint8 || bt.Kind() == types.Int8]+" bytes or more the stored length wraps around")
		}
	}
	r.note("%d narrowing conversions of lengths found", n)
	// 16-bit arithmetic on prefix lengths: an addition or multiplication carried out in uint16 wraps
	// around for prefix lengths near 65535 ((prefixLen+7)/8, 8*bytes, running bit counters)
	m := 0
	for _, fn := range c.Funcs {
		if fn.Package() == nil || shortPkg(fn.Package().Pkg.Path()) != "lpm" {
			continue
		}
		if strings.HasPrefix(fn.Name(), "validate") || strings.HasPrefix(fn.Name(), "show") || fn.Name() == "Print" {
			continue
		}
		ord := 0
		for _, ia := range allInstrs(fn) {
			bo, ok := ia.In.(*ssa.BinOp)
			if !ok || (bo.Op != token.ADD && bo.Op != token.MUL && bo.Op != token.SHL) {
				continue
			}
			bt, ok := bo.Type().Underlying().(*types.Basic)
			if !ok || bt.Kind() != types.Uint16 {
				continue
			}
			m++
			ord++
			r.badP([]string{"C13", "C18"}, fmt.Sprintf("%s|16-bit arithmetic#%d", c.fnName(fn), ord), c.posStr(instrPos(bo)), "an addition/multiplication on prefix lengths is carried out in uint16 and wraps around for prefix lengths close to 65536: the number of data bytes or matched bits becomes 0 and different prefixes collapse into one key")
		}
	}
	r.note("%d 16-bit arithmetic sites in package lpm", m)
	// the typed integer encoders of package index keep every bit of their argument: converting the
	// argument to a narrower integer type maps values that differ in the dropped bits to one key
	k := 0
	for _, fn := range c.Funcs {
		if fn.Package() == nil || shortPkg(fn.Package().Pkg.Path()) != "index" || fn.Parent() != nil || fn.Signature.Recv() != nil {
			continue
		}
		res := fn.Signature.Results()
		if res.Len() != 1 || namedTypeName(res.At(0).Type()) != "Key" {
			continue
		}
		for _, p := range fn.Params {
			pt, ok := p.Type().Underlying().(*types.Basic)
			if !ok || pt.Info()&types.IsInteger == 0 {
				continue
			}
			k++
			var narrow *ssa.Convert
			var walk func(v ssa.Value, d int)
			walk = func(v ssa.Value, d int) {
				if d > 4 || v.Referrers() == nil {
					return
				}
				for _, u := range *v.Referrers() {
					cv, ok := u.(*ssa.Convert)
					if !ok {
						continue
					}
					if bt, ok := cv.Type().Underlying().(*types.Basic); ok && bt.Info()&types.IsInteger != 0 {
						if c.Sizes.Sizeof(bt) < c.Sizes.Sizeof(pt) && narrow == nil {
							narrow = cv
						}
						walk(cv, d+1)
					}
				}
			}
			walk(p, 0)
			key := fmt.Sprintf("%s|argument %s keeps all its bits", c.fnName(fn), p.Name())
			if narrow == nil {
				r.okP([]string{"C18"}, key, c.posStr(fn.Pos()), "the "+pt.Name()+" argument is never converted to a narrower integer type")
			} else {
				r.badP([]string{"C18"}, key, c.posStr(instrPos(narrow)), fmt.Sprintf("the %s argument is converted to %s: values that differ only in the dropped high bits (1 and 1<<32+1) get the same key, so two objects with different identifiers are one object to the table", pt.Name(), narrow.Type().String()))
			}
		}
	}
	if k < 5 {
		r.undecidedP([]string{"C18"}, "index|typed integer encoders", "", fmt.Sprintf("expected at least 5 integer-argument encoders in package index, found %d", k))
	}
}

func isConstInt(v ssa.Value) bool {
	_, ok := constInt(v)
	return ok
}

func init() {
	register(&Rule{
		ID: "CHANGES-INIT", Props: []string{"C07", "C08"}, Floor: 2,
		Doc: "Table.Changes registers its delete tracker under a name that stays unique while it is registered: the name is made from the tracker object itself (kept alive by the table until unregistered) or from a counter - not from the iterator, whose memory can be reused before the cleanup of a dropped iterator has unregistered the old name; the tracker's watermark is set before it is registered; a failed registration returns no iterator",
		Run: ruleChangesInit,
	})
}

func ruleChangesInit(c *Ctx, r *Reporter) {
	fn := c.Func("statedb", "genTable", "Changes")
	if fn == nil {
		r.anchorMissing("statedb.(genTable).Changes")
		return
	}
	adds := c.callsNamed(fn, "statedb.(writeTxnState).addDeleteTracker")
	if len(adds) != 1 {
		r.undecided("statedb.(genTable).Changes|registration", c.posStr(fn.Pos()), fmt.Sprintf("expected one addDeleteTracker call, found %d", len(adds)))
		return
	}
	add := adds[0].(*ssa.Call)
	args := callArgs(add)
	// (1) the name
	name := args[len(args)-2]
	good, why := false, "the tracker name is not built by fmt.Sprintf from a recognisable identity"
	if sp, ok := name.(*ssa.Call); ok && c.calleeName(sp) == "fmt.Sprintf" {
		for _, ia := range allInstrs(fn) {
			mi, ok := ia.In.(*ssa.MakeInterface)
			if !ok || !instrDominates(mi, sp) {
				continue
			}
			// is it stored into the varargs array of this Sprintf?
			used := false
			for _, ref := range *mi.Referrers() {
				if st, ok := ref.(*ssa.Store); ok {
					if ix, ok := st.Addr.(*ssa.IndexAddr); ok {
						if sl, ok := sp.Call.Args[1].(*ssa.Slice); ok && sl.X == ix.X {
							used = true
						}
					}
				}
			}
			if !used {
				continue
			}
			v := mi.X
			switch {
			case namedTypeName(v.Type()) == "deleteTracker":
				good = true
			case namedTypeName(v.Type()) == "changeIterator":
				why = "the tracker is registered under a name made from the iterator's address: a dropped iterator is unregistered by a runtime cleanup that runs after its memory was freed (and waits for the table lock), a new iterator allocated at that address registers under the same name, and the late cleanup then removes the live iterator's tracker - its unobserved deletions are collected"
			default:
				if call, ok := v.(*ssa.Call); ok && strings.Contains(c.calleeName(call), "atomic") {
					good = true
				}
				if cv, ok := v.(*ssa.Convert); ok {
					if call, ok := cv.X.(*ssa.Call); ok && strings.Contains(c.calleeName(call), "atomic") {
						good = true
					}
				}
			}
		}
	}
	r.check(good, "statedb.(genTable).Changes|tracker name unique while registered", c.posStr(instrPos(add)), "the name is derived from the tracker object (or a counter)", why)
	// (1b) deletions the creating transaction made before Changes() are not tracked (no tracker
	// was registered when they happened) while the iterator's sources are read from the committed
	// root, i.e. the state before that transaction: until the creating transaction has committed,
	// nothing can be delivered without losing them. Next must refuse snapshots older than the
	// iterator's creation (a comparison of the snapshot's table revision with a field of the iterator).
	{
		refuses := false
		for _, name := range []string{"Next", "refresh"} {
			f := c.Func("statedb", "changeIterator", name)
			if f == nil {
				continue
			}
			for _, ia := range allInstrs(f) {
				bo, ok := ia.In.(*ssa.BinOp)
				if !ok {
					continue
				}
				switch bo.Op {
				case token.LSS, token.LEQ, token.GTR, token.GEQ:
				default:
					continue
				}
				_, okx := loadOfField(bo.X, "tableEntry", "revision")
				_, oky := loadOfField(bo.Y, "tableEntry", "revision")
				isItField := func(v ssa.Value) bool {
					if a, ok := isLoad(v); ok {
						if fa, ok := a.(*ssa.FieldAddr); ok {
							tn, _, _ := fieldOf(fa)
							return tn == "changeIterator"
						}
					}
					return false
				}
				if (okx && isItField(bo.Y)) || (oky && isItField(bo.X)) {
					refuses = true
				}
			}
		}
		r.checkP([]string{"C07"}, refuses, "statedb.(changeIterator).Next|snapshots older than the iterator's creation are refused", c.posStr(fn.Pos()), "Next compares the snapshot's table revision with the revision recorded at creation", "Changes() called after the creating transaction already deleted objects: those deletions were not tracked, the delete cursor starts at the transaction's own revision, but Next(wtxn) reads the committed root from before the transaction and delivers the deleted objects as updates - their deletion is never delivered (commit 1,2; in one write transaction Delete(1), it := Changes(wtxn), it.Next(wtxn), Commit: replay stays {1,2}, table is {2})")
	}
	// (2) watermark set before registration
	set := false
	for _, call := range c.callsNamed(fn, "statedb.(deleteTracker).setRevision") {
		if instrDominates(call, add) {
			set = true
		}
	}
	r.check(set, "statedb.(genTable).Changes|watermark set before registration", c.posStr(instrPos(add)), "setRevision dominates addDeleteTracker", "the tracker is registered before its watermark is set: the collector may read revision 0/garbage for it")
	// (3) failed registration returns no iterator
	okErr := false
	for _, f := range []bool{true} {
		_ = f
		for _, ret := range returnsOf(fn) {
			if len(ret.Results) == 2 && ret.Results[1] == ssa.Value(add) && isNilConst(ret.Results[0]) {
				okErr = true
			}
		}
	}
	r.check(okErr, "statedb.(genTable).Changes|failed registration returns no iterator", c.posStr(instrPos(add)), "return nil, err", "an iterator is returned although its tracker could not be registered: it silently misses deletions")
}

func init() {
	register(&Rule{
		ID: "WATCH-FREEZE", Props: []string{"C06", "C12"}, Floor: 2,
		Doc: "a part.Txn method that hands out a watch channel found by walking the transaction's working tree freezes the tree first (txnID++), as the methods that hand out iterators do: otherwise the channel may belong to a node the transaction already owns, a later write in the same transaction changes that node in place without marking the channel, and the channel stays open after Commit although the watched key changed",
		Run: ruleWatchFreeze,
	})
	register(&Rule{
		ID: "START-TRIGGER", Props: []string{"C08"}, Floor: 1,
		Doc: "DB.Start requests one collection when it creates the trigger channel: mark()/close() requests made before Start (the database may be used before it is started) had no channel to go to",
		Run: ruleStartTrigger,
	})
	register(&Rule{
		ID: "CLOSE-ONCE", Props: []string{"C12", "C11"}, Floor: 1,
		Doc: "part.Txn.Notify closes channels that belong to the tree the transaction was made from; a second transaction made from the same Tree value (a fork: t0.Insert twice) closes the same channels again, so the close must not panic when the channel is already closed",
		Run: ruleCloseOnce,
	})
}

func ruleWatchFreeze(c *Ctx, r *Reporter) {
	n := 0
	for _, fn := range c.Funcs {
		if fn.Parent() != nil || recvTypeName(fn) != "Txn" || fn.Package() == nil || shortPkg(fn.Package().Pkg.Path()) != "part" {
			continue
		}
		if fn.Object() == nil || !fn.Object().Exported() {
			continue
		}
		// returns a receive-only channel?
		res := fn.Signature.Results()
		chanRes := -1
		for i := 0; i < res.Len(); i++ {
			if isRecvChan(res.At(i).Type()) {
				chanRes = i
			}
		}
		if chanRes < 0 {
			continue
		}
		// only methods that read the working tree without modifying it (queries)
		reads := false
		var rootRead ssa.Instruction
		for _, ia := range allInstrs(fn) {
			if u, ok := ia.In.(*ssa.UnOp); ok {
				if _, ok := loadOfField(u, "Txn", "root"); ok {
					reads = true
					rootRead = u
				}
			}
		}
		writes := false
		for _, ia := range allInstrs(fn) {
			if st, ok := ia.In.(*ssa.Store); ok && isFieldAddrOf(st.Addr, "Txn", "root") {
				writes = true
			}
		}
		if !reads || writes {
			continue
		}
		n++
		frozen := false
		for _, inc := range txnIDIncrements(fn) {
			if instrDominates(inc, rootRead) {
				frozen = true
			}
		}
		r.check(frozen, c.fnName(fn)+"|freezes before handing out a node's channel", c.posStr(fn.Pos()), "txn.txnID++ precedes the walk", "the method returns the watch channel of a node of the working tree without freezing it: if the transaction owns that node (it was created or cloned by an earlier write of this transaction), a later write of the watched key in the same transaction changes the node in place and the channel is never closed (GetWatch on a write transaction, then Insert of that key, then Commit)")
	}
	if n < 2 {
		r.undecided("methods", "-", fmt.Sprintf("expected at least 2 channel-returning query methods of part.Txn, found %d", n))
	}
}

func ruleStartTrigger(c *Ctx, r *Reporter) {
	fn := c.Func("statedb", "DB", "Start")
	if fn == nil {
		r.anchorMissing("statedb.(DB).Start")
		return
	}
	var mk *ssa.Store
	for _, ia := range allInstrs(fn) {
		if st, ok := ia.In.(*ssa.Store); ok && isFieldAddrOf(st.Addr, "dbState", "gcTrigger") {
			mk = st
		}
	}
	if mk == nil {
		r.undecided("statedb.(DB).Start|requests an initial collection", c.posStr(fn.Pos()), "Start does not create the trigger channel")
		return
	}
	sent := false
	for _, ia := range allInstrs(fn) {
		switch x := ia.In.(type) {
		case *ssa.Send:
			if _, ok := loadOfField(x.Chan, "dbState", "gcTrigger"); ok && instrDominates(mk, x) {
				sent = true
			}
		case *ssa.Select:
			for _, st := range x.States {
				if _, ok := loadOfField(st.Chan, "dbState", "gcTrigger"); ok && st.Dir == types.SendOnly && instrDominates(mk, x) {
					sent = true
				}
			}
		}
	}
	r.check(sent, "statedb.(DB).Start|requests an initial collection", c.posStr(instrPos(mk)), "a trigger is put into the new channel", "Start creates the trigger channel but requests no collection: deletions that every iterator had observed before Start() (mark/close found no channel) stay in the graveyard until some later mark or close")
}

func ruleCloseOnce(c *Ctx, r *Reporter) {
	fn := c.Func("part", "Txn", "Notify")
	if fn == nil {
		r.anchorMissing("part.(Txn).Notify")
		return
	}
	raw := 0
	var pos ssa.Instruction
	for _, f := range withAnon(fn) {
		for _, ia := range allInstrs(f) {
			call, ok := ia.In.(*ssa.Call)
			if !ok {
				continue
			}
			if b, ok := call.Call.Value.(*ssa.Builtin); ok && b.Name() == "close" {
				// guarded by a non-blocking receive on the same channel?
				guarded := false
				for _, fct := range factsAt(call.Block()) {
					if ex, ok := fct.Cond.(*ssa.Extract); ok {
						if _, isSel := ex.Tuple.(*ssa.Select); isSel {
							guarded = true
						}
					}
					if bo, ok := fct.Cond.(*ssa.BinOp); ok {
						if ex, ok := bo.X.(*ssa.Extract); ok {
							if _, isSel := ex.Tuple.(*ssa.Select); isSel {
								guarded = true
							}
						}
					}
				}
				if !guarded {
					raw++
					pos = call
				}
			}
		}
	}
	key := "part.(Txn).Notify|closing is idempotent"
	if raw == 0 {
		r.ok(key, c.posStr(fn.Pos()), "no unguarded close of a channel shared with sibling transactions")
	} else {
		r.bad(key, c.posStr(instrPos(pos)), fmt.Sprintf("Notify closes %d channel(s) of the previous tree unconditionally: a second transaction made from the same Tree value (t1 := t0.Insert(a,1); t2 := t0.Insert(a,2) - Tree values are persistent and may be forked) closes them again and panics with 'close of closed channel'", raw))
	}
}

func init() {
	register(&Rule{
		ID: "YIELD-RETURN", Props: []string{"C17", "C11", "C13", "C04", "C07"}, Floor: 20,
		Doc: "every call of a range-over-func yield function looks at its result: an iterator that ignores `false` calls yield again after the loop body has finished, which the runtime turns into a panic ('range function continued iteration after function for loop body returned false') as soon as a caller breaks out of the loop",
		Run: ruleYieldReturn,
	})
	register(&Rule{
		ID: "CLEANUP-NONBLOCK", Props: []string{"C10"}, Floor: 1,
		Doc: "functions handed to runtime.AddCleanup / runtime.SetFinalizer do not wait for a table lock themselves: the runtime runs cleanups sequentially on a few shared goroutines, so a cleanup that opens a write transaction is stuck behind any writer of that table and holds up the cleanups of every other table (blocking work is moved to its own goroutine)",
		Run: ruleCleanupNonblock,
	})
}

func ruleYieldReturn(c *Ctx, r *Reporter) {
	n := 0
	for _, fn := range c.Funcs {
		if fn.Package() == nil {
			continue
		}
		pk := shortPkg(fn.Package().Pkg.Path())
		if strings.HasPrefix(pk, "reconciler/") {
			continue
		}
		ord := 0
		for _, ia := range allInstrs(fn) {
			call, ok := ia.In.(*ssa.Call)
			if !ok || call.Call.IsInvoke() {
				continue
			}
			v := call.Call.Value
			if l, ok := isLoad(v); ok {
				v = l
			}
			name := ""
			switch x := v.(type) {
			case *ssa.Parameter:
				name = x.Name()
			case *ssa.FreeVar:
				name = x.Name()
			default:
				continue
			}
			if name != "yield" {
				continue
			}
			sig, ok := call.Call.Value.Type().Underlying().(*types.Signature)
			if !ok || sig.Results().Len() != 1 {
				continue
			}
			if bt, ok := sig.Results().At(0).Type().Underlying().(*types.Basic); !ok || bt.Kind() != types.Bool {
				continue
			}
			n++
			ord++
			used := false
			if refs := call.Referrers(); refs != nil {
				for _, ref := range *refs {
					if _, ok := ref.(*ssa.DebugRef); !ok {
						used = true
					}
				}
			}
			if !used {
				// ignoring the result is harmless when nothing is yielded afterwards
				again := blockReaches(call.Block(), call.Block())
				for _, ib := range allInstrs(fn) {
					if c2, ok := ib.In.(*ssa.Call); ok && c2 != call && c2.Call.Value == call.Call.Value && instrReaches(call, c2) {
						again = true
					}
					if c2, ok := ib.In.(*ssa.Call); ok && c2 != call && instrReaches(call, c2) {
						if l1, ok1 := isLoad(c2.Call.Value); ok1 {
							if l0, ok0 := isLoad(call.Call.Value); ok0 && l0 == l1 {
								again = true
							}
						}
					}
				}
				// inside a range-over-func body: the enclosing iteration goes on unless the body
				// reports `false` (break/return) after the call
				if !again && fn.Parent() != nil && fn.Signature.Results().Len() == 1 {
					if bt, ok := fn.Signature.Results().At(0).Type().Underlying().(*types.Basic); ok && bt.Kind() == types.Bool {
						for _, ret := range returnsOf(fn) {
							if !instrReaches(call, ret) {
								continue
							}
							if cst, ok := ret.Results[0].(*ssa.Const); ok && cst.Value != nil && cst.Value.String() == "false" {
								continue
							}
							again = true
						}
					}
				}
				if !again {
					used = true
				}
			}
			props := []string{"C04"}
			switch pk {
			case "part":
				props = []string{"C17", "C11"}
			case "lpm":
				props = []string{"C13"}
			case "index":
				props = []string{"C04"}
			case "statedb":
				props = []string{"C04", "C07"}
			}
			r.checkP(props, used, fmt.Sprintf("%s|yield#%d result is used", c.fnName(fn), ord), c.posStr(instrPos(call)), "the iterator stops (or records the outcome) when yield returns false", "the result of yield is ignored: when the caller breaks out of its range loop the iterator calls yield again and the program panics")
		}
	}
	if n < 20 {
		r.undecided("yields", "-", fmt.Sprintf("expected at least 20 yield calls in the module, found %d", n))
	}
}

func ruleCleanupNonblock(c *Ctx, r *Reporter) {
	cg := c.CG()
	n := 0
	for _, fn := range c.Funcs {
		for _, ia := range allInstrs(fn) {
			call, ok := ia.In.(*ssa.Call)
			if !ok {
				continue
			}
			cn := c.calleeName(call)
			idx := -1
			switch {
			case strings.HasPrefix(cn, "runtime.AddCleanup"):
				idx = 1
			case cn == "runtime.SetFinalizer":
				idx = 1
			}
			if idx < 0 || idx >= len(call.Call.Args) {
				continue
			}
			var target *ssa.Function
			switch x := stripConv(call.Call.Args[idx]).(type) {
			case *ssa.Function:
				target = x
			case *ssa.MakeClosure:
				target, _ = x.Fn.(*ssa.Function)
			case *ssa.MakeInterface:
				switch y := x.X.(type) {
				case *ssa.Function:
					target = y
				case *ssa.MakeClosure:
					target, _ = y.Fn.(*ssa.Function)
				}
			}
			if target == nil || !c.inModule(target) {
				continue
			}
			n++
			// synchronous reachability (go statements are not followed)
			blocking := ""
			seen := map[*ssa.Function]bool{}
			var walk func(f *ssa.Function, depth int)
			walk = func(f *ssa.Function, depth int) {
				if seen[f] || depth > 8 || blocking != "" {
					return
				}
				seen[f] = true
				for _, ib := range allInstrs(f) {
					ci, ok := ib.In.(ssa.CallInstruction)
					if !ok {
						continue
					}
					if _, isGo := ib.In.(*ssa.Go); isGo {
						continue
					}
					name := c.calleeName(ci)
					if name == "statedb.(DB).WriteTxn" || name == nSmusLock || name == nMutexLock {
						blocking = name + " at " + c.posStr(instrPos(ib.In))
						return
					}
					for _, e := range cg.Out[f] {
						if e.Site == ib.In && e.Callee != nil && c.inModule(e.Callee) {
							walk(e.Callee, depth+1)
						}
					}
				}
			}
			walk(target, 0)
			r.check(blocking == "", fmt.Sprintf("%s|cleanup %s does not block", c.fnName(fn), c.fnName(target)), c.posStr(instrPos(call)), "the cleanup function reaches no lock acquisition synchronously", "the cleanup function waits for a lock ("+blocking+") on the runtime's shared cleanup goroutine: while a writer keeps that table open, the cleanups of every other table (and of the whole process) are stuck behind it")
		}
	}
	if n == 0 {
		r.anchorMissing("runtime.AddCleanup / SetFinalizer with a module function")
	}
}

func init() {
	register(&Rule{
		ID: "NODE-REMOVE", Props: []string{"C11", "C17", "C04"}, Floor: 4,
		Doc: "header.remove clears the child slot it vacates in every node kind: node4 and node16 look keys up without consulting the size (the filler key 255 matches the byte 0xff), so a slot that keeps its pointer stays reachable through Get/Prefix after the entry was deleted",
		Run: ruleNodeRemove,
	})
	register(&Rule{
		ID: "WAIT-SHAPE", Props: []string{"C20"}, Floor: 2,
		Doc: "WatchSet.Wait: an empty set waits for the context (the only return with a nil slice is behind <-ctx.Done()); the settle window is one deadline created before the gathering loop, not a new one per collected channel",
		Run: ruleWaitShape,
	})
}

func ruleNodeRemove(c *Ctx, r *Reporter) {
	fn := c.Func("part", "header", "remove")
	if fn == nil {
		r.anchorMissing("part.(header).remove")
		return
	}
	cleared := map[string]bool{}
	for _, ia := range allInstrs(fn) {
		st, ok := ia.In.(*ssa.Store)
		if !ok || !isNilConst(st.Val) {
			continue
		}
		ix, ok := st.Addr.(*ssa.IndexAddr)
		if !ok {
			continue
		}
		if fa, ok := ix.X.(*ssa.FieldAddr); ok {
			if tn, f, _ := fieldOf(fa); f == "children" {
				cleared[tn] = true
			}
			continue
		}
		// a slice obtained from children()
		if call, ok := ix.X.(*ssa.Call); ok {
			if sf := staticCallee(call); sf != nil && sf.Name() == "children" {
				cleared["node48"] = true
			}
		}
	}
	for _, k := range []string{"node4", "node16", "node48", "node256"} {
		r.check(cleared[k], "part.(header).remove|"+k+" slot cleared", c.posStr(fn.Pos()), "the vacated child slot of a "+k+" is set to nil", "removing a child from a "+k+" leaves the pointer in the vacated slot: lookups that do not consult the size (node4/node16 match the filler key 255 against the byte 0xff) still find the deleted entry, and the removed subtree stays reachable")
	}
}

func ruleWaitShape(c *Ctx, r *Reporter) {
	fn := c.Func("statedb", "WatchSet", "Wait")
	if fn == nil {
		r.anchorMissing("statedb.(WatchSet).Wait")
		return
	}
	name := c.fnName(fn)
	// (a) nothing is returned without waiting: every return of a nil slice comes after a receive
	// from ctx.Done() or after a reflect.Select (Wait on an empty set blocks until the context ends)
	var waits []ssa.Instruction
	for _, ia := range allInstrs(fn) {
		switch x := ia.In.(type) {
		case *ssa.UnOp:
			if x.Op == token.ARROW {
				if call, ok := x.X.(*ssa.Call); ok && call.Call.IsInvoke() && call.Call.Method.Name() == "Done" {
					waits = append(waits, x)
				}
			}
		case *ssa.Call:
			if c.calleeName(x) == "reflect.Select" {
				waits = append(waits, x)
			}
		}
	}
	var pos ssa.Instruction
	good := true
	nNil := 0
	for _, ret := range returnsOf(fn) {
		vals := retValues(ret)
		if len(vals) == 0 || !isNilConst(vals[0]) {
			continue
		}
		nNil++
		waited := false
		for _, w := range waits {
			if instrDominates(w, ret) {
				waited = true
			}
		}
		if !waited {
			good = false
			pos = ret
		}
	}
	if nNil == 0 {
		r.ok(name+"|an empty set waits for the context", c.posStr(fn.Pos()), "no return of a nil slice")
	} else {
		p := c.posStr(fn.Pos())
		if pos != nil {
			p = c.posStr(instrPos(pos))
		}
		r.check(good, name+"|an empty set waits for the context", p, "every return without channels is preceded by a wait on the context or on the select", "Wait can return (nil, ctx.Err()) without having waited for anything - with a live context that is (nil, nil): an empty set must block until the context ends, callers looping on Wait spin")
	}
	// (b) the settle deadline is created outside the gathering loop
	okSettle := true
	n := 0
	for _, ia := range allInstrs(fn) {
		call, ok := ia.In.(*ssa.Call)
		if !ok || c.calleeName(call) != "context.WithTimeout" {
			continue
		}
		n++
		if blockReaches(call.Block(), call.Block()) {
			okSettle = false
			pos = call
		}
	}
	if n == 0 {
		r.undecided(name+"|one settle deadline", c.posStr(fn.Pos()), "no context.WithTimeout found")
	} else {
		p := c.posStr(fn.Pos())
		if !okSettle {
			p = c.posStr(instrPos(pos))
		}
		r.check(okSettle, name+"|one settle deadline", p, "the settle-time context is created once, before the loop that gathers further closed channels", "the settle-time deadline is re-created for every collected channel: channels that keep closing within the settle time postpone the return indefinitely (the settle time is a bound, not a debounce)")
	}
}

func init() {
	register(&Rule{
		ID: "DERIVE-SNAPSHOT", Props: []string{"C19"}, Floor: 1,
		Doc: "Derive marks its output table initialized from the same snapshot whose changes it has just consumed: the transaction given to InTable.Initialized is the one given to ChangeIterator.Next in that round, and the mark is made in the write transaction that also carries the derived objects",
		Run: ruleDeriveSnapshot,
	})
}

func ruleDeriveSnapshot(c *Ctx, r *Reporter) {
	fn := c.fnByName("statedb.(derive).loop")
	if fn == nil {
		r.anchorMissing("statedb.(derive).loop")
		return
	}
	under := func(v ssa.Value) ssa.Value {
		for i := 0; i < 4; i++ {
			switch x := v.(type) {
			case *ssa.ChangeInterface:
				v = x.X
			case *ssa.MakeInterface:
				v = x.X
			case *ssa.ChangeType:
				v = x.X
			case *ssa.UnOp:
				// a variable spilled into a cell because a closure captures it
				if al, ok := x.X.(*ssa.Alloc); ok && x.Op == token.MUL {
					return al
				}
				return v
			default:
				return v
			}
		}
		return v
	}
	var nextArg, initArg, markArg ssa.Value
	var initCall ssa.Instruction
	for _, ia := range allInstrs(fn) {
		call, ok := ia.In.(*ssa.Call)
		if !ok {
			continue
		}
		if call.Call.IsInvoke() {
			switch call.Call.Method.Name() {
			case "Next":
				if len(call.Call.Args) == 1 {
					nextArg = under(call.Call.Args[0])
				}
			case "Initialized":
				if len(call.Call.Args) == 1 {
					initArg = under(call.Call.Args[0])
					initCall = call
				}
			}
			continue
		}
		// d.markInit(wtxn): call of a func-typed field
		if _, ok := loadOfField(call.Call.Value, "derive", "markInit"); ok && len(call.Call.Args) == 1 {
			markArg = under(call.Call.Args[0])
		}
	}
	key := "statedb.(derive).loop|initialized is read from the snapshot whose changes were consumed"
	switch {
	case nextArg == nil || initArg == nil || markArg == nil:
		r.undecided(key, c.posStr(fn.Pos()), "could not find ChangeIterator.Next, Table.Initialized and the markInit call in the derive loop")
	case initArg == nextArg && markArg == nextArg:
		r.ok(key, c.posStr(instrPos(initCall)), "Next, Initialized and markInit use the round's write transaction")
	default:
		r.bad(key, c.posStr(instrPos(initCall)), "the input table's initialization is read from another snapshot than the one whose changes were consumed (or marked in another transaction): a producer that commits its last objects together with its initialization between the two is seen as initialized while those objects have not been derived - the output table is reported initialized too early")
	}
}

func init() {
	register(&Rule{
		ID: "KEY-OWNER", Props: []string{"C08", "C03", "C04"}, Floor: 2,
		Doc: "writeTxnState.delete stores the deleted object (graveyard, or back into the primary index when a CompareAndDelete is rejected) under a key computed from the stored object, never under the key bytes of the caller's lookup object: the radix tree keeps key slices without copying them and only inserted objects are immutable",
		Run: ruleKeyOwner,
	})
	register(&Rule{
		ID: "REFLECT-KIND", Props: []string{"C03"}, Floor: 1,
		Doc: "reflect.Value.UnsafePointer/Pointer is called only on a value whose Kind() was tested to be a pointer on the same path (an interface-typed table can hold struct values)",
		Run: ruleReflectKind,
	})
}

func ruleKeyOwner(c *Ctx, r *Reporter) {
	fn := c.Func("statedb", "writeTxnState", "delete")
	if fn == nil {
		r.anchorMissing("statedb.(writeTxnState).delete")
		return
	}
	// the primary delete whose result is the stored object
	var stored ssa.Value
	for _, ia := range allInstrs(fn) {
		if ex, ok := ia.In.(*ssa.Extract); ok && ex.Index == 0 {
			if call, ok := ex.Tuple.(*ssa.Call); ok && call.Call.IsInvoke() && call.Call.Method.Name() == "delete" && stored == nil {
				stored = ex
			}
		}
	}
	if stored == nil {
		r.undecided("statedb.(writeTxnState).delete|keys", c.posStr(fn.Pos()), "could not find the primary index delete")
		return
	}
	fromStored := func(v ssa.Value) bool {
		if v == stored {
			return true
		}
		if a, ok := isLoad(v); ok {
			if al, ok := a.(*ssa.Alloc); ok {
				sts := storesTo(fn, al)
				return len(sts) == 1 && sts[0].Val == stored
			}
		}
		return false
	}
	n := 0
	for _, ia := range allInstrs(fn) {
		call, ok := ia.In.(*ssa.Call)
		if !ok || !call.Call.IsInvoke() || call.Call.Method.Name() != "insert" || len(call.Call.Args) < 2 {
			continue
		}
		// the object inserted is the stored one (not the revision-keyed graveyard entry's key)
		n++
		key := call.Call.Args[0]
		good := false
		what := "a key of unknown origin"
		if kc, ok := key.(*ssa.Call); ok {
			switch {
			case kc.Call.IsInvoke() && kc.Call.Method.Name() == "objectToKey" && len(kc.Call.Args) == 1:
				if fromStored(kc.Call.Args[0]) {
					good = true
				} else {
					what = "the key computed from the caller's lookup object"
				}
			case strings.HasPrefix(c.calleeName(kc), "index.Uint64"):
				good = true // fresh key built from a revision
			}
		}
		r.check(good, fmt.Sprintf("statedb.(writeTxnState).delete|insert#%d key comes from the stored object", n), c.posStr(instrPos(call)), "the key is objectToKey(stored object) or a freshly encoded revision", "the deleted object is stored under "+what+": its bytes belong to the caller, who may reuse the buffer - the graveyard (or, after a rejected CompareAndDelete, the primary index) is corrupted, objects are never collected or the next delete through the same buffer panics with 'Double deletion'")
	}
	if n < 2 {
		r.undecided("statedb.(writeTxnState).delete|keys", c.posStr(fn.Pos()), fmt.Sprintf("expected at least 2 index inserts in delete, found %d", n))
	}
}

func ruleReflectKind(c *Ctx, r *Reporter) {
	n := 0
	for _, fn := range c.Funcs {
		if fn.Package() == nil {
			continue
		}
		pk := shortPkg(fn.Package().Pkg.Path())
		if pk != "statedb" && pk != "part" && pk != "lpm" && pk != "index" {
			continue
		}
		ord := 0
		for _, ia := range allInstrs(fn) {
			call, ok := ia.In.(*ssa.Call)
			if !ok {
				continue
			}
			cn := c.calleeName(call)
			if cn != "reflect.(Value).UnsafePointer" && cn != "reflect.(Value).Pointer" {
				continue
			}
			n++
			ord++
			v := call.Call.Args[0]
			tested := false
			for _, f := range factsAt(call.Block()) {
				bo, ok := f.Cond.(*ssa.BinOp)
				if !ok || bo.Op != token.EQL || !f.Val {
					continue
				}
				for _, op := range []ssa.Value{bo.X, bo.Y} {
					if kc, ok := op.(*ssa.Call); ok && c.calleeName(kc) == "reflect.(Value).Kind" && kc.Call.Args[0] == v {
						tested = true
					}
				}
			}
			r.check(tested, fmt.Sprintf("%s|reflect pointer access#%d under a Kind test", c.fnName(fn), ord), c.posStr(instrPos(call)), "the value's Kind() was compared with reflect.Pointer on this path", "reflect.Value.UnsafePointer is called on a value whose kind was not tested: with an interface-typed table the object can be a struct value and the call panics - after the index and the revision were already changed")
		}
	}
	if n == 0 {
		r.anchorMissing("reflect.Value.UnsafePointer in the write path")
	}
}

func init() {
	register(&Rule{
		ID: "LOWERBOUND-COVER", Props: []string{"C13"}, Floor: 1,
		Doc: "lpm LowerBound: once the whole search prefix is matched (longestMatch == the query's prefix length) the node reached - it equals the query or is covered by it, so it and its subtree are >= the query - is pushed on the iterator stack on every path; no further comparison decides it",
		Run: ruleLowerBoundCover,
	})
}

func ruleLowerBoundCover(c *Ctx, r *Reporter) {
	fn := c.Func("lpm", "Txn", "LowerBound")
	if fn == nil {
		r.anchorMissing("lpm.(Txn).LowerBound")
		return
	}
	var isML func(v ssa.Value, seen map[ssa.Value]bool) bool
	isML = func(v ssa.Value, seen map[ssa.Value]bool) bool {
		if seen[v] {
			return false
		}
		seen[v] = true
		switch x := v.(type) {
		case *ssa.Call:
			sf := staticCallee(x)
			return sf != nil && sf.Name() == "longestMatch"
		case *ssa.Phi:
			for _, e := range x.Edges {
				if isML(e, seen) {
					return true
				}
			}
		}
		return false
	}
	isQueryLen := func(v ssa.Value) bool {
		if ex, ok := v.(*ssa.Extract); ok {
			if call, ok := ex.Tuple.(*ssa.Call); ok {
				if sf := staticCallee(call); sf != nil && sf.Name() == "DecodeLPMKey" {
					return true
				}
			}
		}
		return false
	}
	n := 0
	for _, ia := range allInstrs(fn) {
		bo, ok := ia.In.(*ssa.BinOp)
		if !ok || (bo.Op != token.EQL && bo.Op != token.NEQ) {
			continue
		}
		if !(isML(bo.X, map[ssa.Value]bool{}) && isQueryLen(bo.Y)) && !(isML(bo.Y, map[ssa.Value]bool{}) && isQueryLen(bo.X)) {
			continue
		}
		for _, ref := range *bo.Referrers() {
			iff, ok := ref.(*ssa.If)
			if !ok {
				continue
			}
			n++
			start := iff.Block().Succs[0]
			if bo.Op == token.NEQ {
				start = iff.Block().Succs[1]
			}
			// a return reachable from the "whole query matched" edge without pushing on the stack
			seen := map[*ssa.BasicBlock]bool{}
			var leak *ssa.Return
			var walk func(b *ssa.BasicBlock)
			walk = func(b *ssa.BasicBlock) {
				if seen[b] || leak != nil {
					return
				}
				seen[b] = true
				for _, in := range b.Instrs {
					if call, ok := in.(*ssa.Call); ok {
						if bi, ok := call.Call.Value.(*ssa.Builtin); ok && bi.Name() == "append" && len(call.Call.Args) == 2 {
							if sl, ok := call.Call.Args[1].Type().Underlying().(*types.Slice); ok {
								if p, ok := sl.Elem().Underlying().(*types.Pointer); ok && namedTypeName(p.Elem()) == "lpmNode" {
									return
								}
							}
						}
					}
					if ret, ok := in.(*ssa.Return); ok {
						leak = ret
						return
					}
				}
				for _, s := range b.Succs {
					walk(s)
				}
			}
			walk(start)
			r.check(leak == nil, fmt.Sprintf("lpm.(Txn).LowerBound|a node reached with the whole query matched is always included#%d", n), c.posStr(instrPos(bo)), "every path from `matchLen == prefixLen` to the return pushes the node", "after the whole search prefix matched, another test decides whether the node is included: a stored prefix covered by the query (LowerBound(10.0.0.0/16) with 10.0.0.0/24 stored) can compare below the query's encoded key and is skipped together with its subtree")
		}
	}
	if n == 0 {
		r.undecided("lpm.(Txn).LowerBound|whole-query-matched test", c.posStr(fn.Pos()), "no comparison of longestMatch's result with the query's prefix length decides a branch")
	}
}
