package main

// Rules added after the second round of independently seeded changes.

import (
	"fmt"
	"go/token"
	"go/types"
	"strings"

	"golang.org/x/tools/go/ssa"
)

func init() {
	register(&Rule{
		ID: "ITER-PURE", Props: []string{"C11", "C13"}, Floor: 2,
		Doc: "Iterator.All (part and lpm) does not modify the iterator it is called on: it works on a local stack/edge list (copied when it must grow or shrink), so an iterator can be ranged over repeatedly",
		Run: ruleIterPure,
	})
	register(&Rule{
		ID: "NODE-VALUE-TEST", Props: []string{"C11"}, Floor: 3,
		Doc: "the iteration code of part decides whether a node carries a value with getLeaf() != nil (an inner node can carry one), never with isLeaf()",
		Run: ruleNodeValueTest,
	})
	register(&Rule{
		ID: "LPM-IMAGINARY", Props: []string{"C13"}, Floor: 4,
		Doc: "every place of the LPM trie that treats a node as holding a value checks `imaginary` first: exact-match lookups and Delete return 'not found' for an imaginary node, iteration skips it, the longest-match lookup reports !imaginary",
		Run: ruleLpmImaginary,
	})
	register(&Rule{
		ID: "QUEUE-INDEX-PAIR", Props: []string{"C14", "C16"}, Floor: 4,
		Doc: "the retry queue ordered by time is positioned with retryItem.index and the queue ordered by revision with retryItem.revIndex, at every Fix/Remove (directly or through a helper)",
		Run: ruleQueueIndexPair,
	})
}

func ruleIterPure(c *Ctx, r *Reporter) {
	im := c.immutEngine()
	for _, pkg := range []string{"part", "lpm"} {
		fn := c.Func(pkg, "Iterator", "All")
		if fn == nil {
			r.anchorMissing(pkg + ".(Iterator).All")
			continue
		}
		props := []string{"C11"}
		if pkg == "lpm" {
			props = []string{"C13"}
		}
		var bad *writeSite
		n := 0
		for _, w := range im.sites {
			if w.fn != fn {
				continue
			}
			switch w.kind {
			case "store", "append", "copy", "clear":
			default:
				if !strings.HasPrefix(w.kind, "mutator:") {
					continue
				}
			}
			n++
			// anything not provably local: derived from the receiver's memory
			if len(w.c.params) > 0 || len(w.c.shared) > 0 {
				if bad == nil {
					bad = w
				}
			}
		}
		key := pkg + ".(Iterator).All|does not write through the iterator"
		if bad == nil {
			r.okP(props, key, c.posStr(fn.Pos()), fmt.Sprintf("all %d writes in All go to locals or fresh copies", n))
		} else {
			why := "the iterator's own state or a slice it shares"
			if len(bad.c.shared) > 0 {
				why = bad.c.shared[0].msg
			}
			r.badP(props, key, c.posStr(instrPos(bad.in)), "Iterator.All writes through memory that belongs to the iterator ("+why+"): ranging over the same iterator a second time (or a copy of it) yields different entries")
		}
	}
}

func ruleNodeValueTest(c *Ctx, r *Reporter) {
	for _, spec := range []struct {
		recv, name string
		min        int
	}{{"Iterator", "All", 2}, {"Iterator", "Next", 2}, {"", "traverseToMin", 1}} {
		fn := c.Func("part", spec.recv, spec.name)
		if fn == nil {
			r.anchorMissing("part." + spec.name)
			continue
		}
		nGet, nIs := 0, 0
		for _, ia := range allInstrs(fn) {
			call, ok := ia.In.(*ssa.Call)
			if !ok {
				continue
			}
			if sf := staticCallee(call); sf != nil {
				switch c.fnName(sf) {
				case getLeafName:
					// used in a nil test
					if refs := call.Referrers(); refs != nil {
						for _, ref := range *refs {
							if bo, ok := ref.(*ssa.BinOp); ok && (bo.Op == token.NEQ || bo.Op == token.EQL) && isNilConst(bo.Y) {
								nGet++
							}
						}
					}
				case isLeafName:
					nIs++
				}
			}
		}
		r.check(nGet >= spec.min && nIs == 0, c.fnName(fn)+"|value test is getLeaf() != nil", c.posStr(fn.Pos()),
			fmt.Sprintf("%d getLeaf() nil-tests, no isLeaf()", nGet),
			"the traversal decides 'this node carries a value' with isLeaf() (or lost a getLeaf() test): inner nodes that carry a value (a key that is a prefix of other keys) are skipped")
	}
}

func ruleLpmImaginary(c *Ctx, r *Reporter) {
	// (a) exact-match branches of Delete and lpmLookupExact test imaginary before accepting the node
	for _, spec := range [][2]string{{"Txn", "Delete"}, {"", "lpmLookupExact"}} {
		fn := c.Func("lpm", spec[0], spec[1])
		if fn == nil {
			r.anchorMissing("lpm." + spec[1])
			continue
		}
		good := false
		pos := fn.Pos()
		for _, ia := range allInstrs(fn) {
			iff, ok := ia.In.(*ssa.If)
			if !ok {
				continue
			}
			if _, ok := loadOfField(iff.Cond, "lpmNode", "imaginary"); !ok {
				continue
			}
			// dominated by two equality facts on the match length (== key length, == node length)
			eq := 0
			for _, f := range factsAt(iff.Block()) {
				if bo, ok := f.Cond.(*ssa.BinOp); ok && bo.Op == token.EQL && f.Val {
					eq++
				}
			}
			// the imaginary edge must leave the function without a value
			t := iff.Block().Succs[0]
			leaves := false
			if len(t.Instrs) > 0 {
				if ret, ok := t.Instrs[len(t.Instrs)-1].(*ssa.Return); ok {
					leaves = true
					for _, res := range ret.Results {
						if cst, ok := res.(*ssa.Const); ok && cst.Value != nil && cst.Value.String() == "true" {
							leaves = false
						}
					}
				}
			}
			if eq >= 2 && leaves {
				good = true
				pos = instrPos(iff)
			}
		}
		r.check(good, c.fnName(fn)+"|exact match on an imaginary node is 'not found'", c.posStr(pos),
			"the exact-match branch returns without a value when node.imaginary",
			"the exact-match branch accepts an imaginary (fork) node as if it held a value: Delete/LookupExact of an unstored prefix that sits on a fork reports success and the size goes wrong")
	}
	// (b) iteration skips imaginary nodes; Lookup reports !imaginary
	for _, spec := range [][2]string{{"Iterator", "All"}, {"Iterator", "Next"}} {
		fn := c.Func("lpm", spec[0], spec[1])
		if fn == nil {
			r.anchorMissing("lpm.(Iterator)." + spec[1])
			continue
		}
		good := false
		for _, ia := range allInstrs(fn) {
			u, ok := ia.In.(*ssa.UnOp)
			if !ok {
				continue
			}
			if _, ok := loadOfField(u, "lpmNode", "value"); !ok {
				continue
			}
			for _, f := range factsAt(u.Block()) {
				cond, val := stripNot(f.Cond, f.Val)
				if _, ok := loadOfField(cond, "lpmNode", "imaginary"); ok && !val {
					good = true
				}
			}
		}
		r.check(good, c.fnName(fn)+"|imaginary nodes are not yielded", c.posStr(fn.Pos()), "node.value is only read where node.imaginary is false", "the iterator yields (zero) values of imaginary fork nodes")
	}
	if fn := c.Func("lpm", "", "lpmLookup"); fn != nil {
		good := false
		for _, ret := range returnsOf(fn) {
			if len(ret.Results) == 2 {
				if _, ok := loadOfField(ret.Results[0], "lpmNode", "value"); ok {
					v, _ := stripNot(ret.Results[1], true)
					if _, ok := loadOfField(v, "lpmNode", "imaginary"); ok && v != ret.Results[1] {
						good = true
					}
				}
			}
		}
		r.check(good, "lpm.lpmLookup|full-length match reports !imaginary", c.posStr(fn.Pos()), "return node.value, !node.imaginary", "a lookup that ends on a fork node reports its (zero) value as found")
	}
}

func ruleQueueIndexPair(c *Ctx, r *Reporter) {
	pair := map[string]string{"queue": "index", "revQueue": "revIndex"}
	n := 0
	for _, fn := range c.Funcs {
		if fn.Package() == nil || shortPkg(fn.Package().Pkg.Path()) != "reconciler" {
			continue
		}
		for _, ia := range allInstrs(fn) {
			call, ok := ia.In.(*ssa.Call)
			if !ok {
				continue
			}
			var queues, indexes []string
			for _, a := range callArgs(call) {
				a = stripConv(a)
				for q := range pair {
					if _, ok := loadOfField(a, "retries", q); ok {
						queues = append(queues, q)
					}
				}
				for _, ix := range []string{"index", "revIndex"} {
					if _, ok := loadOfField(a, "retryItem", ix); ok {
						indexes = append(indexes, ix)
					}
				}
			}
			if len(queues) == 0 || len(indexes) == 0 {
				continue
			}
			n++
			key := fmt.Sprintf("%s|%s(%s, %s)", c.fnName(fn), c.calleeName(call), strings.Join(queues, ","), strings.Join(indexes, ","))
			good := len(queues) == 1 && len(indexes) == 1 && pair[queues[0]] == indexes[0]
			r.check(good, key, c.posStr(instrPos(call)), "queue and item index belong together", "a retry item's position in one heap is used to address the other heap ("+strings.Join(queues, ",")+" with "+strings.Join(indexes, ",")+"): the wrong entry is fixed/removed and a stale retry survives or a live one is lost")
		}
	}
	if n < 4 {
		r.undecided("calls", "-", fmt.Sprintf("expected at least 4 queue operations addressed by an item index, found %d", n))
	}
}

var _ = types.Typ

func init() {
	register(&Rule{
		ID: "DECODE-FRESH", Props: []string{"C17"}, Floor: 4,
		Doc: "the JSON/YAML decoders of part.Map and part.Set decode every element of the sequence into a variable that is fresh per loop iteration: a reused decode target makes the decoded elements share maps/slices/pointers (encoding/json merges into existing memory), so the decoded collection is not equal to the encoded one",
		Run: ruleDecodeFresh,
	})
}

func ruleDecodeFresh(c *Ctx, r *Reporter) {
	for _, fn := range c.Funcs {
		if fn.Package() == nil || shortPkg(fn.Package().Pkg.Path()) != "part" {
			continue
		}
		if fn.Name() != "UnmarshalJSON" && fn.Name() != "UnmarshalYAML" {
			continue
		}
		var loops []map[*ssa.BasicBlock]bool
		for _, h := range fn.Blocks {
			back := false
			for _, p := range h.Preds {
				if h.Dominates(p) {
					back = true
				}
			}
			if back {
				loops = append(loops, naturalLoop(h))
			}
		}
		k := 0
		for _, ia := range allInstrs(fn) {
			call, ok := ia.In.(*ssa.Call)
			if !ok {
				continue
			}
			name := c.calleeName(call)
			if !strings.HasSuffix(name, ".Decode") && !strings.HasSuffix(name, ".Unmarshal") {
				continue
			}
			inLoop := false
			for _, l := range loops {
				if l[call.Block()] {
					inLoop = true
				}
			}
			if !inLoop {
				continue
			}
			k++
			key := fmt.Sprintf("%s|decode target #%d is fresh per element", c.fnName(fn), k)
			var target *ssa.Alloc
			for _, a := range callArgs(call) {
				v := stripConv(a)
				if mi, ok := v.(*ssa.MakeInterface); ok {
					v = mi.X
				}
				if al, ok := v.(*ssa.Alloc); ok {
					target = al
				}
			}
			if target == nil {
				r.undecided(key, c.posStr(instrPos(call)), "the decode target is not a local variable")
				continue
			}
			good := true
			for _, l := range loops {
				if l[call.Block()] && !l[target.Block()] {
					good = false
				}
			}
			r.check(good, key, c.posStr(instrPos(call)), "the target variable is declared inside the loop", "the decode target is declared outside the loop and reused for every element: decoded elements alias each other's maps/slices/pointers and the decoded collection differs from the encoded one")
		}
	}
}
