package main

import (
	"fmt"
	"go/token"
	"go/types"
	"sort"
	"strings"

	"golang.org/x/tools/go/ssa"
)

func init() {
	register(&Rule{
		ID: "NOTIFY-SITES", Props: []string{"C02", "C06", "C12", "C19"}, Floor: 8,
		Doc: "a watch channel of committed state (node/root channels of a part tree, the LPM index channel, a table's init channel) is closed only in part.Txn.Notify, lpmIndexTxn.notify and Commit's init loop; outside package part the notifying entry points (Txn.Notify, CommitAndNotify, Tree.Insert/Modify/Delete) are called only from partIndexTxn.notify, and tableIndexTxnNotify.notify only from Commit",
		Run: ruleNotifySites,
	})
	register(&Rule{
		ID: "ABORT-PURE", Props: []string{"C02", "C06", "C09", "C12", "C19"}, Floor: 4,
		Doc: "nothing reachable from writeTxnHandle.Abort stores the root, commits an index, notifies, closes a channel or writes persistent memory; Abort releases the table locks exactly once on its open path",
		Run: ruleAbortPure,
	})
	register(&Rule{
		ID: "READ-PURE", Props: []string{"C01"}, Floor: 60,
		Doc: "no function reachable from the read API writes persistent memory other than memory it allocated itself (no transaction-owned writes on a read path)",
		Run: ruleReadPure,
	})
	register(&Rule{
		ID: "READ-NOBLOCK", Props: []string{"C01", "C10"}, Floor: 60,
		Doc: "no function reachable from the read API acquires a lock, waits, sleeps, or performs a blocking channel operation",
		Run: ruleReadNoBlock,
	})
	register(&Rule{
		ID: "TXN-RETIRE", Props: []string{"C11", "C17", "C13"}, Floor: 12,
		Doc: "part.Txn.Commit publishes its receiver in the tree's prevTxn slot for reuse: at every call site the receiver is a local transaction that is dead afterwards (only Notify may follow), or the field holding it is cleared by the only later user; lpm.Txn.Commit is followed by Clear",
		Run: ruleTxnRetire,
	})
}

// ---- watch channel provenance ----

var watchFields = map[string]string{
	"part.header.watch":                 "radix node channel",
	"part.Txn.rootWatch":                "tree root channel",
	"part.Tree.rootWatch":               "tree root channel",
	"part.Txn.watches":                  "channels queued by the transaction",
	"statedb.lpmIndex.watch":            "LPM index channel",
	"statedb.tableInitialization.watch": "table initialization channel",
}

func chanProvenance(fn *ssa.Function, v ssa.Value, seen map[ssa.Value]bool, out map[string]bool) {
	if v == nil || seen[v] {
		return
	}
	seen[v] = true
	v = derefLocal(v)
	switch x := v.(type) {
	case *ssa.UnOp:
		if addr, ok := isLoad(x); ok {
			switch a := addr.(type) {
			case *ssa.FieldAddr:
				out[fieldKeyOf(a)] = true
			case *ssa.IndexAddr:
				// element of a slice: where do the elements come from?
				chanProvenance(fn, a.X, seen, out)
			case *ssa.Alloc:
				for _, st := range storesTo(fn, a) {
					chanProvenance(fn, st.Val, seen, out)
				}
			default:
				out["memory"] = true
			}
		}
	case *ssa.Field:
		out[structFieldKey(x)] = true
	case *ssa.Phi:
		for _, e := range x.Edges {
			chanProvenance(fn, e, seen, out)
		}
	case *ssa.ChangeType:
		chanProvenance(fn, x.X, seen, out)
	case *ssa.MakeChan:
		out["make"] = true
	case *ssa.Extract:
		// k from `range m`
		if nx, ok := x.Tuple.(*ssa.Next); ok {
			if rg, ok := nx.Iter.(*ssa.Range); ok {
				chanProvenance(fn, rg.X, seen, out)
				return
			}
		}
		out["call-result"] = true
	case *ssa.Call:
		if b, ok := x.Call.Value.(*ssa.Builtin); ok && b.Name() == "append" {
			for _, a := range x.Call.Args {
				chanProvenance(fn, a, seen, out)
			}
			return
		}
		out["call-result"] = true
	case *ssa.Slice:
		chanProvenance(fn, x.X, seen, out)
	case *ssa.Alloc:
		// varargs array: elements stored into it
		for _, ia := range allInstrs(fn) {
			if st, ok := ia.In.(*ssa.Store); ok {
				if ix, ok := st.Addr.(*ssa.IndexAddr); ok && ix.X == v {
					chanProvenance(fn, st.Val, seen, out)
				}
			}
		}
	case *ssa.Parameter:
		out["param"] = true
	case *ssa.FreeVar:
		out["captured"] = true
	case *ssa.Const:
	default:
		out["unknown"] = true
	}
}

func ruleNotifySites(c *Ctx, r *Reporter) {
	allowedClose := map[string]bool{
		"part.(Txn).Notify":               true,
		"statedb.(lpmIndexTxn).notify":    true,
		"statedb.(writeTxnHandle).Commit": true,
	}
	nWatch := 0
	for _, fn := range c.Funcs {
		for i, call := range c.callsNamed(fn, "builtin.close") {
			prov := map[string]bool{}
			chanProvenance(fn, call.Common().Args[0], map[ssa.Value]bool{}, prov)
			var wf []string
			for k := range prov {
				if _, ok := watchFields[k]; ok {
					wf = append(wf, k)
				}
			}
			sort.Strings(wf)
			who := c.fnName(topLevel(fn))
			if len(wf) == 0 {
				continue
			}
			nWatch++
			key := fmt.Sprintf("%s|close#%d(%s)", c.fnName(fn), i+1, strings.Join(wf, ","))
			props := []string{"C02", "C06"}
			if strings.HasPrefix(wf[0], "part.") {
				props = []string{"C02", "C06", "C12"}
			}
			if wf[0] == "statedb.tableInitialization.watch" {
				props = []string{"C02", "C19"}
			}
			if allowedClose[who] {
				r.okP(props, key, c.posStr(instrPos(call)), "watch channel of committed state closed at one of its three legal sites")
			} else {
				r.badP(props, key, c.posStr(instrPos(call)), "a watch channel of committed state ("+watchFields[wf[0]]+") is closed outside Notify/notify/Commit: it can close before the change is published, or in a transaction that aborts")
			}
		}
	}
	if nWatch < 4 {
		r.undecided("close-sites", "-", fmt.Sprintf("expected at least 4 close() sites on watch channels, recognised %d", nWatch))
	}
	// (b) who may call the notifying entry points
	notifying := map[string][]string{
		"part.(Txn).Notify":                        {"statedb.(partIndexTxn).notify", "part.(Txn).CommitAndNotify"},
		"part.(Txn).CommitAndNotify":               {"part.(Tree).Insert", "part.(Tree).Modify", "part.(Tree).Delete"},
		"part.(Tree).Insert":                       {},
		"part.(Tree).Modify":                       {},
		"part.(Tree).Delete":                       {},
		"iface:statedb.tableIndexTxnNotify.notify": {"statedb.(writeTxnHandle).Commit"},
		"statedb.(partIndexTxn).notify":            {},
		"statedb.(lpmIndexTxn).notify":             {},
	}
	seen := map[string]int{}
	for _, fn := range c.Funcs {
		for _, ia := range allInstrs(fn) {
			call, ok := ia.In.(ssa.CallInstruction)
			if !ok {
				continue
			}
			n := c.calleeName(call)
			al, ok := notifying[n]
			if !ok {
				continue
			}
			who := c.fnName(topLevel(fn))
			seen[n]++
			good := false
			for _, a := range al {
				if a == who {
					good = true
				}
			}
			key := fmt.Sprintf("%s|calls %s", who, n)
			props := []string{"C02", "C06", "C12", "C19"}
			if good {
				r.okP(props, key, c.posStr(instrPos(call)), "notifying entry point called from its legal caller")
			} else {
				r.badP(props, key, c.posStr(instrPos(call)), n+" closes watch channels of the tree it is applied to at call time; called here, that is before the enclosing write transaction has published anything (and it may still abort): watchers wake early or spuriously, and a second call on the same committed tree panics with 'close of closed channel'")
			}
		}
	}
	for _, n := range []string{"part.(Txn).Notify", "iface:statedb.tableIndexTxnNotify.notify"} {
		if seen[n] == 0 {
			r.anchorMissing("call of " + n)
		}
	}
}

// ---- effects of a function relevant to abort/read purity ----

func (c *Ctx) blockingOps(fn *ssa.Function) []struct {
	in   ssa.Instruction
	what string
} {
	var out []struct {
		in   ssa.Instruction
		what string
	}
	add := func(in ssa.Instruction, w string) {
		out = append(out, struct {
			in   ssa.Instruction
			what string
		}{in, w})
	}
	for _, ia := range allInstrs(fn) {
		switch x := ia.In.(type) {
		case *ssa.Send:
			add(x, "channel send")
		case *ssa.UnOp:
			if x.Op == token.ARROW {
				add(x, "channel receive")
			}
		case *ssa.Select:
			if x.Blocking {
				add(x, "blocking select")
			}
		case ssa.CallInstruction:
			if _, isGo := x.(*ssa.Go); isGo {
				continue
			}
			n := c.calleeName(x)
			if blockingExt[n] {
				add(x, "call of "+n)
			}
			if x.Common().IsInvoke() {
				m := x.Common().Method.Name()
				tn := typePkgNameFull(x.Common().Value.Type())
				if (tn == "sync.Locker" || tn == "internal.SortableMutex") && m == "Lock" {
					add(x, "Lock() on "+tn)
				}
			}
		}
	}
	return out
}

// T-STDLIB: blocking calls
var blockingExt = map[string]bool{
	"sync.(Mutex).Lock": true, "sync.(RWMutex).Lock": true, "sync.(RWMutex).RLock": true,
	"sync.(WaitGroup).Wait": true, "sync.(Cond).Wait": true, "time.Sleep": true,
	"golang.org/x/time/rate.(Limiter).Wait": true, "golang.org/x/time/rate.(Limiter).WaitN": true,
	"reflect.Select": true, "sync.(Once).Do": false,
	"internal.(SortableMutexes).Lock": true, "internal.(sortableMutex).Lock": true,
}

func ruleAbortPure(c *Ctx, r *Reporter) {
	abort := c.Func("statedb", "writeTxnHandle", "Abort")
	if abort == nil {
		r.anchorMissing("statedb.(writeTxnHandle).Abort")
		return
	}
	cg := c.CG()
	reach := cg.Reach([]*ssa.Function{abort}, nil)
	im := c.immutEngine()
	sitesBy := map[*ssa.Function][]*writeSite{}
	for _, w := range im.sites {
		sitesBy[w.fn] = append(sitesBy[w.fn], w)
	}
	for _, fn := range sortedFns(c, reach) {
		name := c.fnName(fn)
		var problems []string
		var pos token.Pos = fn.Pos()
		if len(c.rootStores(fn)) > 0 {
			problems = append(problems, "stores dbState.root")
			pos = instrPos(c.rootStores(fn)[0])
		}
		for _, ia := range allInstrs(fn) {
			call, ok := ia.In.(ssa.CallInstruction)
			if !ok {
				continue
			}
			n := c.calleeName(call)
			switch {
			case n == "iface:statedb.tableIndex.commit":
				problems = append(problems, "commits an index")
				pos = instrPos(call)
			case strings.HasSuffix(n, ".notify") || n == "part.(Txn).Notify" || n == "part.(Txn).CommitAndNotify":
				problems = append(problems, "notifies ("+n+")")
				pos = instrPos(call)
			case n == "builtin.close":
				problems = append(problems, "closes a channel")
				pos = instrPos(call)
			}
		}
		for _, w := range sitesBy[fn] {
			if w.relevant && w.exempt == "" {
				problems = append(problems, "writes persistent memory ("+w.region+")")
				pos = instrPos(w.in)
			}
		}
		key := "reach|" + name
		props := []string{"C02", "C06", "C09", "C12", "C19"}
		if len(problems) == 0 {
			r.okP(props, key, c.posStr(fn.Pos()), "reachable from Abort; publishes, commits, notifies, closes and writes nothing persistent")
		} else {
			r.badP(props, key, c.posStr(pos), "reachable from Abort but "+strings.Join(problems, "; ")+": an aborted transaction leaves a trace", cg.path(reach, fn)...)
		}
	}
	// Abort releases the table locks exactly once on its open path
	unl := c.callsNamed(abort, nSmusUnlock)
	name := c.fnName(abort)
	if len(unl) != 1 {
		r.badP([]string{"C02", "C05", "C10"}, name+"|smus.Unlock once", c.posStr(abort.Pos()), fmt.Sprintf("Abort contains %d SortableMutexes.Unlock calls, expected exactly one", len(unl)))
		return
	}
	u := unl[0]
	// every path from entry to a return passes the unlock, except the already-closed early return
	bad := false
	var offending *ssa.Return
	for _, ret := range returnsOf(abort) {
		if instrDominates(u, ret) {
			continue
		}
		// allowed only under the guard handle.writeTxnState == nil
		guard := false
		for _, f := range factsAt(ret.Block()) {
			if b, ok := f.Cond.(*ssa.BinOp); ok && f.Val && b.Op == token.EQL && (isNilConst(b.X) || isNilConst(b.Y)) {
				if _, ok := loadOfField(b.X, "writeTxnHandle", "writeTxnState"); ok {
					guard = true
				}
			}
		}
		if !guard {
			bad = true
			offending = ret
		}
	}
	if blockReaches(u.Block(), u.Block()) {
		bad = true
	}
	if bad {
		p := c.posStr(instrPos(u))
		if offending != nil {
			p = c.posStr(instrPos(offending))
		}
		r.badP([]string{"C02", "C05", "C10"}, name+"|smus.Unlock once", p, "a path through Abort of an open transaction returns without releasing the table locks (or releases them in a loop)")
	} else {
		r.okP([]string{"C02", "C05", "C10"}, name+"|smus.Unlock once", c.posStr(instrPos(u)), "the table locks are released exactly once on every path of an open transaction")
	}
}

// readRoots enumerates the read API.
func (c *Ctx) readRoots() []*ssa.Function {
	var roots []*ssa.Function
	want := map[string]map[string]bool{
		"statedb.DB":       {"ReadTxn": true, "GetTables": true, "GetTable": true},
		"statedb.genTable": {"Get": true, "GetWatch": true, "List": true, "ListWatch": true, "Prefix": true, "PrefixWatch": true, "LowerBound": true, "LowerBoundWatch": true, "All": true, "AllWatch": true, "NumObjects": true, "Revision": true, "Initialized": true, "PendingInitializers": true, "numDeletedObjects": true},
		"statedb.AnyTable": {"NumObjects": true, "All": true, "AllWatch": true, "Get": true, "Prefix": true, "LowerBound": true, "List": true, "queryIndex": true},
		"part.Tree":        {"Get": true, "Prefix": true, "LowerBound": true, "Iterator": true, "All": true, "Len": true, "RootWatch": true},
		"lpm.Trie":         {"All": true, "Prefix": true, "LowerBound": true, "Lookup": true, "LookupExact": true, "Len": true},
		"part.Map":         {"Get": true, "All": true, "Prefix": true, "LowerBound": true, "Len": true, "EqualKeys": true, "SlowEqual": true},
		"part.Set":         {"Has": true, "All": true, "Len": true, "Prefix": true, "LowerBound": true, "Equal": true},
	}
	for _, fn := range c.Funcs {
		if fn.Parent() != nil || fn.Package() == nil {
			continue
		}
		rt := recvTypeName(fn)
		k := shortPkg(fn.Package().Pkg.Path()) + "." + rt
		if rt == "readTxn" && fn.Name() != "WriteJSON" {
			roots = append(roots, fn)
			continue
		}
		if m, ok := want[k]; ok && m[fn.Name()] {
			roots = append(roots, fn)
		}
	}
	return roots
}

func (c *Ctx) readReach() map[*ssa.Function]*CGEdge {
	return c.CG().Reach(c.readRoots(), func(e *CGEdge) bool { return e.Go })
}

func ruleReadPure(c *Ctx, r *Reporter) {
	roots := c.readRoots()
	if len(roots) < 40 {
		r.undecided("roots", "-", fmt.Sprintf("expected at least 40 read API roots, found %d", len(roots)))
	}
	reach := c.readReach()
	im := c.immutEngine()
	sitesBy := map[*ssa.Function][]*writeSite{}
	for _, w := range im.sites {
		sitesBy[w.fn] = append(sitesBy[w.fn], w)
	}
	cg := c.CG()
	for _, fn := range sortedFns(c, reach) {
		var bad *writeSite
		for _, w := range sitesBy[fn] {
			if w.relevant && w.exempt == "" && w.c.owned {
				bad = w
			}
		}
		key := "reach|" + c.fnName(fn)
		if bad == nil {
			r.ok(key, c.posStr(fn.Pos()), "reachable from the read API; no transaction-owned persistent write")
		} else {
			r.bad(key, c.posStr(instrPos(bad.in)), "a function reachable from the read API writes transaction-owned persistent memory ("+bad.region+"): a reader would modify state a writer owns", cg.path(reach, fn)...)
		}
	}
	r.note("%d read API roots, %d functions reachable", len(roots), len(reach))
}

func ruleReadNoBlock(c *Ctx, r *Reporter) {
	reach := c.readReach()
	cg := c.CG()
	for _, fn := range sortedFns(c, reach) {
		ops := c.blockingOps(fn)
		key := "reach|" + c.fnName(fn)
		if len(ops) == 0 {
			r.ok(key, c.posStr(fn.Pos()), "reachable from the read API; no lock, wait or blocking channel operation")
		} else {
			r.bad(key, c.posStr(instrPos(ops[0].in)), "a function reachable from the read API may block ("+ops[0].what+"): readers must never wait for writers", cg.path(reach, fn)...)
		}
	}
}

func ruleTxnRetire(c *Ctx, r *Reporter) {
	for _, fn := range c.Funcs {
		for _, ia := range allInstrs(fn) {
			call, ok := ia.In.(*ssa.Call)
			if !ok {
				continue
			}
			n := c.calleeName(call)
			if n != "part.(Txn).Commit" && n != "part.(Txn).CommitAndNotify" && n != "lpm.(Txn).Commit" {
				continue
			}
			who := c.fnName(fn)
			key := fmt.Sprintf("%s|%s", who, n)
			pos := c.posStr(instrPos(call))
			recv := derefLocal(call.Call.Args[0])
			props := []string{"C11", "C17"}
			if strings.HasPrefix(who, "part.(Tree)") || strings.HasPrefix(who, "part.(Txn)") || strings.HasPrefix(who, "statedb.") {
				props = []string{"C11"}
			}
			if n == "lpm.(Txn).Commit" {
				props = []string{"C13"}
				// must be followed by Clear() on the same transaction
				okClear := false
				for _, ib := range allInstrs(fn) {
					c2, ok := ib.In.(*ssa.Call)
					if !ok || c.calleeName(c2) != "lpm.(Txn).Clear" {
						continue
					}
					if sameFieldLoad(c2.Call.Args[0], call.Call.Args[0]) || derefLocal(c2.Call.Args[0]) == recv {
						if c.instrPostDominates(c2, call) {
							okClear = true
						}
					}
				}
				r.checkP(props, okClear || isLocalTxn(recv), key, pos, "the committed lpm transaction is cleared (or local and dead)", "an lpm transaction is committed and kept without Clear(): it still holds the published root with the same txnID and may mutate published nodes in place")
				continue
			}
			// delegation inside Txn's own methods
			if p, ok := recv.(*ssa.Parameter); ok && recvTypeName(fn) == "Txn" && len(fn.Params) > 0 && fn.Params[0] == p {
				r.okP(props, key, pos, "method of the transaction itself delegating to Commit; its own callers are checked")
				continue
			}
			if isLocalTxn(recv) {
				// dead afterwards except Notify
				var later ssa.Instruction
				if refs := recv.Referrers(); refs != nil {
					for _, ref := range *refs {
						if ref == ssa.Instruction(call) {
							continue
						}
						if _, ok := ref.(*ssa.DebugRef); ok {
							continue
						}
						if !instrReaches(call, ref) {
							continue
						}
						if c2, ok := ref.(*ssa.Call); ok && c.calleeName(c2) == "part.(Txn).Notify" {
							continue
						}
						later = ref
					}
				}
				if later == nil {
					r.okP(props, key, pos, "receiver is a transaction created in this function and not used after Commit (except Notify)")
				} else {
					r.badP(props, key, pos, "the transaction is used again after Commit() published it for reuse (at "+c.posStr(instrPos(later))+"): the next writer of the returned tree picks the same object up and both operate on it")
				}
				continue
			}
			// E3: field that is cleared by the only later user
			if x, ok := loadOfField(call.Call.Args[0], "partIndexTxn", "tx"); ok {
				_ = x
				// notify must clear it
				cleared := false
				if nf := c.Func("statedb", "partIndexTxn", "notify"); nf != nil {
					for _, ib := range allInstrs(nf) {
						if st, ok := ib.In.(*ssa.Store); ok && isFieldAddrOf(st.Addr, "partIndexTxn", "tx") && isNilConst(st.Val) {
							cleared = true
						}
					}
				}
				r.checkP(props, cleared, key, pos, "E3: the committed transaction stays in partIndexTxn.tx only until notify(), which clears it", "partIndexTxn.tx keeps the committed transaction and notify() does not clear it")
				continue
			}
			r.badP(props, key, pos, "Commit() is called on a transaction that is neither local to this function nor retired afterwards: Txn.Commit publishes the object in the tree's prevTxn slot and the next writer of that tree reuses it while this holder may still use it")
		}
	}
}

func sameFieldLoad(a, b ssa.Value) bool {
	pa, ok1 := isLoad(a)
	pb, ok2 := isLoad(b)
	if !ok1 || !ok2 {
		return false
	}
	return canonAddr(pa) == canonAddr(pb)
}

// isLocalTxn: value is a transaction obtained in this function from Tree.Txn()/Trie.Txn()/newTxn.
func isLocalTxn(v ssa.Value) bool {
	seen := map[ssa.Value]bool{}
	var walk func(v ssa.Value) bool
	walk = func(v ssa.Value) bool {
		v = derefLocal(v)
		if seen[v] {
			return true
		}
		seen[v] = true
		switch x := v.(type) {
		case *ssa.Call:
			if f := staticCallee(x); f != nil {
				if f.Name() == "Txn" || f.Name() == "newTxn" {
					return true
				}
			}
			return false
		case *ssa.Phi:
			for _, e := range x.Edges {
				if !walk(e) {
					return false
				}
			}
			return true
		case *ssa.Alloc:
			_, isStruct := pointee(x.Type()).Underlying().(*types.Struct)
			return isStruct
		}
		return false
	}
	return walk(v)
}
