package main

// DUAL-MERGE: the two-way merge of the change iterator (dualIterator.next) is
// decided by abstract interpretation over its finite state: for each side the
// flags (slot filled, source alive), the outcome of advancing a source and the
// order of the two buffered revisions (<, =, >). Every combination (192) is run
// through the function's SSA and compared with the merge specification.

import (
	"fmt"
	"go/constant"
	"go/token"

	"golang.org/x/tools/go/ssa"
)

func init() {
	register(&Rule{
		ID: "DUAL-MERGE", Props: []string{"C07"}, Floor: 1,
		Doc: "dualIterator.next is a correct two-way merge by revision: a source is advanced exactly when its slot is empty and it is alive, an exhausted source is retired, the buffered element with the smaller revision is returned from its own slot with the matching side flag, only that slot is consumed, and nothing is returned only when both are exhausted (all 192 abstract states interpreted)",
		Run: ruleDualMerge,
	})
}

type dmVal struct {
	kind string // "bool", "ptr" (b = non-nil), "rev", "obj", "tuple", "other"
	b    bool
	side int // for rev/obj/tuple: 0 left, 1 right
}

type dmState struct {
	ok, alive [2]bool
	advanced  [2]bool
	crossed   string
}

func ruleDualMerge(c *Ctx, r *Reporter) {
	fn := c.Func("statedb", "dualIterator", "next")
	if fn == nil {
		r.anchorMissing("statedb.(dualIterator).next")
		return
	}
	key := "statedb.(dualIterator).next|two-way merge by revision"
	pos := c.posStr(fn.Pos())
	if len(fn.Params) != 1 {
		r.undecided(key, pos, "unexpected signature")
		return
	}
	it := fn.Params[0]
	// sideField: address it.<side>.<field>
	sideField := func(addr ssa.Value) (int, string, bool) {
		fa, ok := addr.(*ssa.FieldAddr)
		if !ok {
			return 0, "", false
		}
		outer, ok := fa.X.(*ssa.FieldAddr)
		if !ok || outer.X != ssa.Value(it) {
			return 0, "", false
		}
		_, f, ok := fieldOf(fa)
		if !ok {
			return 0, "", false
		}
		_, sname, _ := fieldOf(outer)
		switch sname {
		case "left":
			return 0, f, true
		case "right":
			return 1, f, true
		}
		return 0, "", false
	}
	// side of a Next() call: its receiver is loaded from it.<side>.iter
	callSide := func(call *ssa.Call) (int, bool) {
		args := callArgs(call)
		if len(args) == 0 {
			return 0, false
		}
		v := args[0]
		for i := 0; i < 4; i++ {
			a, ok := isLoad(v)
			if !ok {
				return 0, false
			}
			if s, f, ok := sideField(a); ok && f == "iter" {
				return s, true
			}
			v = a
		}
		return 0, false
	}
	type scenario struct {
		ok, alive, next [2]bool
		order           int // -1: left.rev < right.rev, 0 equal, 1 greater
	}
	var firstBad string
	runs := 0
	run := func(sc scenario) string {
		st := dmState{ok: sc.ok, alive: sc.alive}
		var prev *ssa.BasicBlock
		blk := fn.Blocks[0]
		vals := map[ssa.Value]dmVal{}
		var eval func(v ssa.Value) dmVal
		eval = func(v ssa.Value) dmVal {
			if x, ok := vals[v]; ok {
				return x
			}
			switch x := v.(type) {
			case *ssa.Const:
				if x.Value == nil {
					return dmVal{kind: "ptr", b: false}
				}
				if x.Value.Kind() == constant.Bool {
					return dmVal{kind: "bool", b: constant.BoolVal(x.Value)}
				}
			}
			return dmVal{kind: "other"}
		}
		for steps := 0; steps < 200; steps++ {
			for _, in := range blk.Instrs {
				switch x := in.(type) {
				case *ssa.Phi:
					for i, p := range blk.Preds {
						if p == prev {
							vals[x] = eval(x.Edges[i])
						}
					}
				case *ssa.UnOp:
					switch x.Op {
					case token.MUL:
						if s, f, ok := sideField(x.X); ok {
							switch f {
							case "ok":
								vals[x] = dmVal{kind: "bool", b: st.ok[s]}
							case "iter":
								vals[x] = dmVal{kind: "ptr", b: st.alive[s]}
							case "rev":
								vals[x] = dmVal{kind: "rev", side: s}
							case "obj":
								vals[x] = dmVal{kind: "obj", side: s}
							}
						}
					case token.NOT:
						if a := eval(x.X); a.kind == "bool" {
							vals[x] = dmVal{kind: "bool", b: !a.b}
						}
					}
				case *ssa.BinOp:
					a, b := eval(x.X), eval(x.Y)
					switch {
					case a.kind == "ptr" && b.kind == "ptr" && (!a.b || !b.b) && (x.Op == token.EQL || x.Op == token.NEQ):
						eq := a.b == b.b
						vals[x] = dmVal{kind: "bool", b: eq == (x.Op == token.EQL)}
					case a.kind == "rev" && b.kind == "rev" && a.side != b.side:
						o := sc.order // left ? right
						if a.side == 1 {
							o = -o
						}
						var res bool
						switch x.Op {
						case token.LSS:
							res = o < 0
						case token.LEQ:
							res = o <= 0
						case token.GTR:
							res = o > 0
						case token.GEQ:
							res = o >= 0
						case token.EQL:
							res = o == 0
						case token.NEQ:
							res = o != 0
						default:
							continue
						}
						vals[x] = dmVal{kind: "bool", b: res}
					}
				case *ssa.Call:
					if sf := staticCallee(x); sf != nil && sf.Name() == "Next" && recvTypeName(sf) == "iterator" {
						if s, ok := callSide(x); ok {
							if st.advanced[s] {
								return fmt.Sprintf("the %s source is advanced twice in one call", sideName(s))
							}
							if !st.alive[s] {
								return fmt.Sprintf("the retired (nil) %s source is advanced", sideName(s))
							}
							st.advanced[s] = true
							vals[x] = dmVal{kind: "tuple", side: s}
							continue
						}
						return "Next() is called on something other than it.left.iter / it.right.iter"
					}
				case *ssa.Extract:
					if t := eval(x.Tuple); t.kind == "tuple" {
						switch x.Index {
						case 0:
							vals[x] = dmVal{kind: "obj", side: t.side}
						case 1:
							vals[x] = dmVal{kind: "rev", side: t.side}
						case 2:
							vals[x] = dmVal{kind: "bool", b: sc.next[t.side]}
						}
					}
				case *ssa.Store:
					if s, f, ok := sideField(x.Addr); ok {
						v := eval(x.Val)
						switch f {
						case "ok":
							if v.kind != "bool" {
								return "a slot flag is set to a value the analysis cannot evaluate"
							}
							st.ok[s] = v.b
						case "iter":
							if v.kind != "ptr" {
								return "a source pointer is set to a value the analysis cannot evaluate"
							}
							st.alive[s] = v.b
						case "rev", "obj":
							if v.kind != f || v.side != s {
								st.crossed = fmt.Sprintf("the %s slot's %s is filled from something other than the %s source", sideName(s), f, sideName(s))
							}
						}
					}
				case *ssa.If:
					cv := eval(x.Cond)
					if cv.kind != "bool" {
						return "a branch condition is not over the slot flags, the source pointers or the two buffered revisions"
					}
					prev = blk
					if cv.b {
						blk = blk.Succs[0]
					} else {
						blk = blk.Succs[1]
					}
				case *ssa.Jump:
					prev = blk
					blk = blk.Succs[0]
				case *ssa.Panic:
					return "reaches the panic"
				case *ssa.Return:
					if st.crossed != "" {
						return st.crossed
					}
					// specification
					exp := dmState{ok: sc.ok, alive: sc.alive}
					for s := 0; s < 2; s++ {
						if !exp.ok[s] && exp.alive[s] {
							exp.advanced[s] = true
							exp.ok[s] = sc.next[s]
							if !sc.next[s] {
								exp.alive[s] = false
							}
						}
					}
					for s := 0; s < 2; s++ {
						if st.advanced[s] != exp.advanced[s] {
							if exp.advanced[s] {
								return fmt.Sprintf("the %s source is not advanced although its slot is empty and it is alive", sideName(s))
							}
							return fmt.Sprintf("the %s source is advanced although its slot is still filled: the buffered element is overwritten and lost", sideName(s))
						}
					}
					pick := -1 // side to return
					switch {
					case exp.ok[0] && exp.ok[1]:
						switch {
						case sc.order < 0:
							pick = 0
						case sc.order > 0:
							pick = 1
						default:
							pick = 2 // either
						}
					case exp.ok[0]:
						pick = 0
					case exp.ok[1]:
						pick = 1
					}
					if len(x.Results) != 4 {
						return "unexpected result arity"
					}
					okv := eval(x.Results[3])
					if okv.kind != "bool" {
						return "the ok result cannot be evaluated"
					}
					if pick == -1 {
						if okv.b {
							return "an element is returned although both slots are empty"
						}
						if st.alive != exp.alive || st.ok != exp.ok {
							return "an exhausted source is not retired (or a flag is wrong) when nothing is returned"
						}
						return ""
					}
					if !okv.b {
						return "nothing is returned although an element is buffered: the sequence ends early and changes are lost"
					}
					ov, rv, fl := eval(x.Results[0]), eval(x.Results[1]), eval(x.Results[2])
					if ov.kind != "obj" || rv.kind != "rev" || fl.kind != "bool" || ov.side != rv.side {
						return "the returned object and revision do not come from one slot"
					}
					got := ov.side
					if pick != 2 && got != pick {
						if exp.ok[0] && exp.ok[1] {
							return fmt.Sprintf("with both slots filled the %s element is returned although the %s one has the smaller revision: changes are delivered out of revision order", sideName(got), sideName(pick))
						}
						return fmt.Sprintf("the %s slot is returned although it is empty", sideName(got))
					}
					if fl.b != (got == 0) {
						return "the side flag does not match the slot the element was taken from (a deletion is reported as an update or vice versa)"
					}
					exp.ok[got] = false
					if st.ok != exp.ok {
						return fmt.Sprintf("after returning the %s element the slot flags are wrong (the element is delivered again, or the other buffered element is dropped)", sideName(got))
					}
					if st.alive != exp.alive {
						return "an exhausted source is not retired, or a live source is retired"
					}
					return ""
				}
			}
		}
		return "the interpretation did not reach a return"
	}
	bools := []bool{false, true}
	for _, lo := range bools {
		for _, ro := range bools {
			for _, la := range bools {
				for _, ra := range bools {
					for _, ln := range bools {
						for _, rn := range bools {
							for order := -1; order <= 1; order++ {
								sc := scenario{ok: [2]bool{lo, ro}, alive: [2]bool{la, ra}, next: [2]bool{ln, rn}, order: order}
								runs++
								if msg := run(sc); msg != "" && firstBad == "" {
									firstBad = fmt.Sprintf("%s [slots filled L=%v R=%v, sources alive L=%v R=%v, Next() ok L=%v R=%v, left.rev %s right.rev]", msg, lo, ro, la, ra, ln, rn, map[int]string{-1: "<", 0: "==", 1: ">"}[order])
								}
							}
						}
					}
				}
			}
		}
	}
	if firstBad == "" {
		r.ok(key, pos, fmt.Sprintf("%d abstract states interpreted, all agree with the merge specification", runs))
	} else {
		r.bad(key, pos, firstBad)
	}
}

func sideName(s int) string {
	if s == 0 {
		return "left"
	}
	return "right"
}
