package main

import (
	"fmt"
	"go/ast"
	"go/token"
	"go/types"
	"os"
	"path/filepath"
	"sort"
	"strings"

	"golang.org/x/tools/go/packages"
	"golang.org/x/tools/go/ssa"
)

const modPath = "github.com/cilium/statedb"

// Ctx is the loaded, type-checked and SSA-built view of the repository
// working tree. Everything a rule looks at comes from here; nothing is cached
// between runs.
type Ctx struct {
	RepoDir string
	Config  string // "default", "GOARCH=386", "tags=verif"
	Fset    *token.FileSet
	Pkgs    []*packages.Package // module packages only, sorted by path
	ByPath  map[string]*packages.Package
	Prog    *ssa.Program
	SSAPkg  map[string]*ssa.Package
	Sizes   types.Sizes

	// Funcs are all source-level functions of the module (generic origins, not
	// instantiations; no synthetic wrappers), including function literals.
	Funcs []*ssa.Function
	// byObj maps a declared function object to its ssa function
	byObj map[*types.Func]*ssa.Function
	// encl maps an anonymous function to the chain of enclosing functions
	declOf map[*ssa.Function]*ast.FuncDecl

	LoadSeconds float64

	// lazily computed
	cg       *CallGraph
	im       *immut
	lockSum  map[*ssa.Function]*lockSummary
	postdoms map[*ssa.Function]*postDom
}

type loadOpts struct {
	env   []string
	tags  string
	label string
}

func shimPath() string {
	exe, err := os.Executable()
	if err == nil {
		d := filepath.Join(filepath.Dir(exe), "goshim")
		if st, err := os.Stat(filepath.Join(d, "go")); err == nil && !st.IsDir() {
			return d
		}
	}
	return "/verif/bin/goshim"
}

// loadRepo loads and type checks ./... of the module found in dir. It fails
// (never passes silently) on any load or type error.
func loadRepo(dir string, o loadOpts) (*Ctx, error) {
	env := []string{}
	for _, e := range os.Environ() {
		if strings.HasPrefix(e, "GOWORK=") || strings.HasPrefix(e, "GOFLAGS=") ||
			strings.HasPrefix(e, "GOTOOLCHAIN=") || strings.HasPrefix(e, "PATH=") ||
			strings.HasPrefix(e, "GOPROXY=") {
			continue
		}
		env = append(env, e)
	}
	env = append(env,
		"PATH="+shimPath()+":"+os.Getenv("PATH"),
		"GOTOOLCHAIN=local",
		"GOFLAGS=-mod=mod",
		"GOPROXY=off",
		"GOWORK=off",
	)
	env = append(env, o.env...)
	// go/packages looks `go` up through this process's PATH, not cfg.Env
	os.Setenv("PATH", shimPath()+":"+os.Getenv("PATH"))
	os.Unsetenv("GOWORK")
	cfg := &packages.Config{
		Mode:  packages.LoadAllSyntax,
		Dir:   dir,
		Tests: false,
		Env:   env,
	}
	if o.tags != "" {
		cfg.BuildFlags = []string{"-tags=" + o.tags}
	}
	pkgs, err := packages.Load(cfg, "./...")
	if err != nil {
		return nil, fmt.Errorf("packages.Load: %w", err)
	}
	var errs []string
	packages.Visit(pkgs, nil, func(p *packages.Package) {
		for _, e := range p.Errors {
			errs = append(errs, e.Error())
		}
	})
	if len(errs) > 0 {
		sort.Strings(errs)
		if len(errs) > 10 {
			errs = errs[:10]
		}
		return nil, fmt.Errorf("type/load errors:\n  %s", strings.Join(errs, "\n  "))
	}
	c := &Ctx{RepoDir: dir, Config: o.label, ByPath: map[string]*packages.Package{}, SSAPkg: map[string]*ssa.Package{},
		byObj: map[*types.Func]*ssa.Function{}, declOf: map[*ssa.Function]*ast.FuncDecl{}, postdoms: map[*ssa.Function]*postDom{}}
	if c.Config == "" {
		c.Config = "default"
	}
	for _, p := range pkgs {
		if p.PkgPath == modPath || strings.HasPrefix(p.PkgPath, modPath+"/") {
			c.Pkgs = append(c.Pkgs, p)
			c.ByPath[p.PkgPath] = p
		}
	}
	sort.Slice(c.Pkgs, func(i, j int) bool { return c.Pkgs[i].PkgPath < c.Pkgs[j].PkgPath })
	if len(c.Pkgs) < 8 {
		return nil, fmt.Errorf("expected at least 8 packages of %s, loaded %d", modPath, len(c.Pkgs))
	}
	c.Fset = pkgs[0].Fset
	c.Sizes = pkgs[0].TypesSizes

	// Build SSA for the whole program (dependencies included so that calls into
	// them resolve to *ssa.Function values with names and signatures).
	prog := ssa.NewProgram(c.Fset, ssa.InstantiateGenerics)
	created := map[*types.Package]bool{}
	var create func(p *packages.Package)
	create = func(p *packages.Package) {
		if p.Types == nil || created[p.Types] {
			return
		}
		created[p.Types] = true
		for _, imp := range p.Imports {
			create(imp)
		}
		if p.TypesInfo != nil && len(p.Syntax) > 0 && !p.IllTyped {
			sp := prog.CreatePackage(p.Types, p.Syntax, p.TypesInfo, true)
			if c.ByPath[p.PkgPath] != nil {
				c.SSAPkg[p.PkgPath] = sp
			}
		} else {
			prog.CreatePackage(p.Types, nil, nil, true)
		}
	}
	for _, p := range pkgs {
		create(p)
	}
	for _, p := range c.Pkgs {
		c.SSAPkg[p.PkgPath].Build()
	}
	c.Prog = prog

	// Enumerate source functions.
	seen := map[*ssa.Function]bool{}
	var add func(fn *ssa.Function)
	add = func(fn *ssa.Function) {
		// go/ssa lowers `for x := range seqFunc` bodies into synthetic yield
		// closures: they are source code and must be analysed.
		if fn == nil || seen[fn] || (fn.Synthetic != "" && fn.Synthetic != "range-over-func yield") {
			return
		}
		seen[fn] = true
		c.Funcs = append(c.Funcs, fn)
		for _, a := range fn.AnonFuncs {
			add(a)
		}
	}
	for _, p := range c.Pkgs {
		for _, f := range p.Syntax {
			for _, d := range f.Decls {
				fd, ok := d.(*ast.FuncDecl)
				if !ok {
					continue
				}
				obj, _ := p.TypesInfo.Defs[fd.Name].(*types.Func)
				if obj == nil {
					continue
				}
				fn := prog.FuncValue(obj)
				if fn == nil {
					continue
				}
				c.byObj[obj] = fn
				c.declOf[fn] = fd
				add(fn)
			}
		}
		// package initializers carry the closures of package-level vars
		if init := c.SSAPkg[p.PkgPath].Func("init"); init != nil {
			for _, a := range init.AnonFuncs {
				add(a)
			}
		}
	}
	sort.Slice(c.Funcs, func(i, j int) bool { return c.fnName(c.Funcs[i]) < c.fnName(c.Funcs[j]) })
	return c, nil
}

// shortPkg returns the package path relative to the module ("" for root as "statedb").
func shortPkg(path string) string {
	if path == modPath {
		return "statedb"
	}
	return strings.TrimPrefix(path, modPath+"/")
}

func (c *Ctx) inModule(fn *ssa.Function) bool {
	if fn == nil {
		return false
	}
	p := fn.Package()
	if p == nil {
		if o := fn.Origin(); o != nil {
			p = o.Package()
		}
	}
	if p == nil && fn.Parent() != nil {
		return c.inModule(fn.Parent())
	}
	if p == nil || p.Pkg == nil {
		return false
	}
	return p.Pkg.Path() == modPath || strings.HasPrefix(p.Pkg.Path(), modPath+"/")
}

// origin returns the generic origin of an instantiated function, or fn itself.
func origin(fn *ssa.Function) *ssa.Function {
	if fn == nil {
		return nil
	}
	if o := fn.Origin(); o != nil {
		return o
	}
	// an anonymous function inside an instantiation: map through the parent
	if p := fn.Parent(); p != nil {
		po := origin(p)
		if po != p {
			for i, a := range p.AnonFuncs {
				if a == fn && i < len(po.AnonFuncs) {
					return po.AnonFuncs[i]
				}
			}
		}
	}
	return fn
}

// recvTypeName returns the name of the receiver's named type ("" for functions).
func recvTypeName(fn *ssa.Function) string {
	sig := fn.Signature
	if sig == nil || sig.Recv() == nil {
		return ""
	}
	return namedTypeName(sig.Recv().Type())
}

func namedTypeName(t types.Type) string {
	for {
		switch tt := t.(type) {
		case *types.Pointer:
			t = tt.Elem()
			continue
		case *types.Named:
			return tt.Obj().Name()
		case *types.Alias:
			t = types.Unalias(tt)
			continue
		}
		return ""
	}
}

func namedOf(t types.Type) *types.Named {
	for {
		switch tt := t.(type) {
		case *types.Pointer:
			t = tt.Elem()
			continue
		case *types.Named:
			return tt
		case *types.Alias:
			t = types.Unalias(tt)
			continue
		}
		return nil
	}
}

// typePkgName returns "pkg.Name" of the named type behind t ("" if none).
func typePkgName(t types.Type) string {
	n := namedOf(t)
	if n == nil || n.Obj().Pkg() == nil {
		if n != nil {
			return n.Obj().Name()
		}
		return ""
	}
	return shortPkg(n.Obj().Pkg().Path()) + "." + n.Obj().Name()
}

// fnName is the stable display/key name: pkg.(Recv).Name or pkg.Name, with $n
// for function literals.
func (c *Ctx) fnName(fn *ssa.Function) string {
	if fn == nil {
		return "<nil>"
	}
	if fn.Parent() != nil {
		p := fn.Parent()
		idx := 0
		for i, a := range p.AnonFuncs {
			if a == fn {
				idx = i + 1
			}
		}
		return fmt.Sprintf("%s$%d", c.fnName(p), idx)
	}
	pk := ""
	if fn.Package() != nil {
		pk = shortPkg(fn.Package().Pkg.Path())
	} else if o := fn.Origin(); o != nil && o.Package() != nil {
		pk = shortPkg(o.Package().Pkg.Path())
	}
	if r := recvTypeName(fn); r != "" {
		return fmt.Sprintf("%s.(%s).%s", pk, r, fn.Name())
	}
	return pk + "." + fn.Name()
}

// Func finds a function or method by package (short path), receiver type name
// ("" for plain functions) and name. Returns nil if absent.
func (c *Ctx) Func(pkg, recv, name string) *ssa.Function {
	want := pkg + "."
	if recv != "" {
		want += "(" + recv + ")."
	}
	want += name
	for _, fn := range c.Funcs {
		if fn.Parent() == nil && c.fnName(fn) == want {
			return fn
		}
	}
	return nil
}

// topLevel returns the outermost enclosing declared function.
func topLevel(fn *ssa.Function) *ssa.Function {
	for fn.Parent() != nil {
		fn = fn.Parent()
	}
	return fn
}

func (c *Ctx) pos(p token.Pos) token.Position {
	pp := c.Fset.Position(p)
	if rel, err := filepath.Rel(c.RepoDir, pp.Filename); err == nil && !strings.HasPrefix(rel, "..") {
		pp.Filename = rel
	}
	return pp
}

func (c *Ctx) posStr(p token.Pos) string {
	if !p.IsValid() {
		return "-"
	}
	pp := c.pos(p)
	return fmt.Sprintf("%s:%d:%d", pp.Filename, pp.Line, pp.Column)
}

// instrPos returns the best source position for an instruction (some SSA
// instructions carry NoPos; fall back to operands and then the function).
func instrPos(in ssa.Instruction) token.Pos {
	if in == nil {
		return token.NoPos
	}
	if p := in.Pos(); p.IsValid() {
		return p
	}
	var ops []*ssa.Value
	ops = in.Operands(ops)
	for _, o := range ops {
		if *o == nil {
			continue
		}
		if p := (*o).Pos(); p.IsValid() {
			return p
		}
	}
	if in.Parent() != nil {
		return in.Parent().Pos()
	}
	return token.NoPos
}

// structField returns the field (by name) of the struct behind named type t.
func fieldIndex(t types.Type, name string) int {
	n := namedOf(t)
	var st *types.Struct
	if n != nil {
		st, _ = n.Underlying().(*types.Struct)
	} else {
		if p, ok := t.(*types.Pointer); ok {
			t = p.Elem()
		}
		st, _ = t.Underlying().(*types.Struct)
	}
	if st == nil {
		return -1
	}
	for i := 0; i < st.NumFields(); i++ {
		if st.Field(i).Name() == name {
			return i
		}
	}
	return -1
}

// fieldOf describes a FieldAddr / Field instruction as "TypeName.field".
func fieldOf(v ssa.Value) (typeName, field string, ok bool) {
	switch x := v.(type) {
	case *ssa.FieldAddr:
		pt, _ := x.X.Type().Underlying().(*types.Pointer)
		if pt == nil {
			return "", "", false
		}
		st, _ := pt.Elem().Underlying().(*types.Struct)
		if st == nil {
			return "", "", false
		}
		return namedTypeName(pt.Elem()), st.Field(x.Field).Name(), true
	case *ssa.Field:
		st, _ := x.X.Type().Underlying().(*types.Struct)
		if st == nil {
			return "", "", false
		}
		return namedTypeName(x.X.Type()), st.Field(x.Field).Name(), true
	}
	return "", "", false
}
