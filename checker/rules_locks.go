package main

import (
	"fmt"
	"go/ast"
	"go/token"
	"go/types"
	"sort"
	"strings"

	"golang.org/x/tools/go/cfg"
	"golang.org/x/tools/go/ssa"
)

func init() {
	register(&Rule{
		ID: "LOCK-GRAPH", Props: []string{"C10"}, Floor: 3,
		Doc: "the lock-class graph (class A held while class B is acquired, interprocedurally) is acyclic and has no edge into the table-lock class",
		Run: ruleLockGraph,
	})
	register(&Rule{
		ID: "MU-NONBLOCK", Props: []string{"C10"}, Floor: 4,
		Doc: "inside dbState.mu and acquiredInfo.mu critical sections nothing blocks, no other lock class is taken (except acquiredInfo.mu under dbState.mu) and no user code (Metrics, callbacks) is called",
		Run: ruleMuNonblock,
	})
	register(&Rule{
		ID: "SORTED-LOCK", Props: []string{"C10"}, Floor: 3,
		Doc: "SortableMutexes.Lock sorts by Seq() before its acquiring loop; NewSortableMutex takes seq from the result of one atomic Add; DB.WriteTxn removes duplicate tables (by position) before collecting the mutexes",
		Run: ruleSortedLock,
	})
	register(&Rule{
		ID: "TXN-PAIR", Props: []string{"C10"}, Floor: 14,
		Doc: "every WriteTxn opened in library code reaches Commit or Abort on every non-panicking path to the function's exit (defer counts) and no second WriteTxn is opened while it is still open",
		Run: ruleTxnPair,
	})
	register(&Rule{
		ID: "WTXN-BLOCKS", Props: []string{"C10"}, Floor: 3,
		Doc: "the only blocking operations reachable from DB.WriteTxn, Commit and Abort are the table locks, dbState.mu and acquiredInfo.mu",
		Run: ruleWtxnBlocks,
	})
}

const classTables = "TABLES"

// lockClassOfCall: the lock class acquired/released by this call, if any.
func (c *Ctx) lockClassOfCall(call ssa.CallInstruction) (class string, acquire bool, ok bool) {
	n := c.calleeName(call)
	switch n {
	case nMutexLock, "sync.(RWMutex).Lock", "sync.(RWMutex).RLock":
		acquire = true
	case nMutexUnlock, "sync.(RWMutex).Unlock", "sync.(RWMutex).RUnlock":
	case nSmusLock:
		return classTables, true, true
	case nSmusUnlock:
		return classTables, false, true
	default:
		return "", false, false
	}
	args := call.Common().Args
	if len(args) == 0 {
		return "", false, false
	}
	if fa, ok := args[0].(*ssa.FieldAddr); ok {
		return fieldKeyOf(fa), acquire, true
	}
	return "mutex:" + args[0].Type().String(), acquire, true
}

// heldRegion: instructions executed while the lock taken at `lock` is held.
func (c *Ctx) heldRegion(fn *ssa.Function, lock ssa.CallInstruction, class string) []ssa.Instruction {
	var out []ssa.Instruction
	seen := map[*ssa.BasicBlock]bool{}
	var walk func(b *ssa.BasicBlock, start int)
	walk = func(b *ssa.BasicBlock, start int) {
		for i := start; i < len(b.Instrs); i++ {
			in := b.Instrs[i]
			if call, ok := in.(ssa.CallInstruction); ok {
				if _, isDefer := in.(*ssa.Defer); !isDefer {
					if cl, acq, ok := c.lockClassOfCall(call); ok && cl == class && !acq {
						return // released
					}
				}
			}
			out = append(out, in)
		}
		for _, s := range b.Succs {
			if !seen[s] {
				seen[s] = true
				walk(s, 0)
			}
		}
	}
	walk(lock.Block(), instrIndex(lock)+1)
	return out
}

type lockSummary struct {
	acquires map[string]ssa.Instruction // class -> a witness instruction
	blocks   map[string]ssa.Instruction // blocking op description -> witness
	user     map[string]ssa.Instruction // user callbacks
}

func (c *Ctx) lockSummaries() map[*ssa.Function]*lockSummary {
	if c.lockSum != nil {
		return c.lockSum
	}
	cg := c.CG()
	sums := map[*ssa.Function]*lockSummary{}
	for _, fn := range c.Funcs {
		s := &lockSummary{acquires: map[string]ssa.Instruction{}, blocks: map[string]ssa.Instruction{}, user: map[string]ssa.Instruction{}}
		for _, ia := range allInstrs(fn) {
			if call, ok := ia.In.(ssa.CallInstruction); ok {
				if _, isGo := ia.In.(*ssa.Go); isGo {
					continue
				}
				if cl, acq, ok := c.lockClassOfCall(call); ok && acq {
					s.acquires[cl] = ia.In
				}
			}
		}
		for _, op := range c.blockingOps(fn) {
			s.blocks[op.what] = op.in
		}
		for _, e := range cg.Out[fn] {
			if e.Kind == "callback" && !e.Go {
				s.user[e.Ext] = e.Site
			}
		}
		sums[fn] = s
	}
	for changed := true; changed; {
		changed = false
		for _, fn := range c.Funcs {
			s := sums[fn]
			for _, e := range cg.Out[fn] {
				if e.Callee == nil || e.Go || e.Kind == "closure" {
					continue
				}
				t := sums[e.Callee]
				if t == nil {
					continue
				}
				for k := range t.acquires {
					if _, ok := s.acquires[k]; !ok {
						s.acquires[k] = e.Site
						changed = true
					}
				}
				for k := range t.blocks {
					if _, ok := s.blocks[k]; !ok {
						s.blocks[k] = e.Site
						changed = true
					}
				}
				for k := range t.user {
					if _, ok := s.user[k]; !ok {
						s.user[k] = e.Site
						changed = true
					}
				}
			}
		}
	}
	c.lockSum = sums
	return sums
}

// calleesAt resolves the module functions a call instruction may invoke.
func (c *Ctx) calleesAt(in ssa.Instruction) []*CGEdge {
	var out []*CGEdge
	fn := in.Parent()
	for _, e := range c.CG().Out[fn] {
		if e.Site == in && e.Kind != "closure" {
			out = append(out, e)
		}
	}
	return out
}

type lockEdge struct {
	from, to string
	at       ssa.Instruction
	via      string
}

func (c *Ctx) lockEdges() []lockEdge {
	sums := c.lockSummaries()
	var edges []lockEdge
	addRegion := func(class string, region []ssa.Instruction) {
		for _, in := range region {
			call, ok := in.(ssa.CallInstruction)
			if !ok {
				continue
			}
			if _, isGo := in.(*ssa.Go); isGo {
				continue
			}
			if cl, acq, ok := c.lockClassOfCall(call); ok && acq {
				edges = append(edges, lockEdge{class, cl, in, "direct"})
				continue
			}
			for _, e := range c.calleesAt(in) {
				if e.Callee == nil {
					continue
				}
				for k := range sums[e.Callee].acquires {
					edges = append(edges, lockEdge{class, k, in, "via " + c.fnName(e.Callee)})
				}
			}
		}
	}
	for _, fn := range c.Funcs {
		for _, ia := range allInstrs(fn) {
			call, ok := ia.In.(ssa.CallInstruction)
			if !ok {
				continue
			}
			if _, isDefer := ia.In.(*ssa.Defer); isDefer {
				continue
			}
			cl, acq, ok := c.lockClassOfCall(call)
			if !ok || !acq {
				continue
			}
			addRegion(cl, c.heldRegion(fn, call, cl))
		}
	}
	// the table locks are held across functions: all of Commit and Abort up to
	// SortableMutexes.Unlock (entry regions)
	for _, n := range []string{"Commit", "Abort"} {
		if fn := c.Func("statedb", "writeTxnHandle", n); fn != nil {
			var region []ssa.Instruction
			unl := c.callsNamed(fn, nSmusUnlock)
			for _, ia := range allInstrs(fn) {
				held := true
				for _, u := range unl {
					if instrDominates(u, ia.In) {
						held = false
					}
				}
				if held {
					region = append(region, ia.In)
				}
			}
			addRegion(classTables, region)
		}
	}
	return edges
}

func ruleLockGraph(c *Ctx, r *Reporter) {
	edges := c.lockEdges()
	uniq := map[string]lockEdge{}
	for _, e := range edges {
		k := e.from + " -> " + e.to
		if _, ok := uniq[k]; !ok {
			uniq[k] = e
		}
	}
	var keys []string
	for k := range uniq {
		keys = append(keys, k)
	}
	sort.Strings(keys)
	adj := map[string][]string{}
	for _, k := range keys {
		e := uniq[k]
		adj[e.from] = append(adj[e.from], e.to)
	}
	// reachability for cycle detection
	reaches := func(a, b string) bool {
		seen := map[string]bool{}
		st := append([]string{}, adj[a]...)
		for len(st) > 0 {
			x := st[len(st)-1]
			st = st[:len(st)-1]
			if seen[x] {
				continue
			}
			seen[x] = true
			if x == b {
				return true
			}
			st = append(st, adj[x]...)
		}
		return false
	}
	for _, k := range keys {
		e := uniq[k]
		pos := c.posStr(instrPos(e.at))
		switch {
		case e.to == classTables:
			r.bad("edge|"+k, pos, "table locks are acquired while holding "+e.from+" ("+e.via+"): table locks must be the outermost locks, taken only by the sorted bulk acquire")
		case e.from == e.to && e.from == "statedb.WatchSet.mu":
			r.ok("edge|"+k, pos, "WatchSet.Merge takes two WatchSet mutexes (same class, outside the database's locks) - informational")
		case reaches(e.to, e.from):
			r.bad("edge|"+k, pos, "lock order cycle: "+e.from+" is held while "+e.to+" is acquired ("+e.via+") and "+e.to+" can be held while "+e.from+" is acquired")
		default:
			r.ok("edge|"+k, pos, e.from+" held while "+e.to+" is acquired ("+e.via+"); no path back")
		}
	}
	if len(keys) == 0 {
		r.anchorMissing("lock edges")
	}
}

func ruleMuNonblock(c *Ctx, r *Reporter) {
	sums := c.lockSummaries()
	classes := map[string]bool{"statedb.dbState.mu": true, "statedb.acquiredInfo.mu": true}
	n := 0
	for _, fn := range c.Funcs {
		for _, ia := range allInstrs(fn) {
			call, ok := ia.In.(ssa.CallInstruction)
			if !ok {
				continue
			}
			if _, isDefer := ia.In.(*ssa.Defer); isDefer {
				continue
			}
			cl, acq, ok := c.lockClassOfCall(call)
			if !ok || !acq || !classes[cl] {
				continue
			}
			n++
			key := fmt.Sprintf("%s|region of %s", c.fnName(fn), cl)
			var problems []string
			var at ssa.Instruction
			for _, in := range c.heldRegion(fn, call, cl) {
				switch x := in.(type) {
				case *ssa.Send:
					problems = append(problems, "channel send")
					at = in
				case *ssa.Select:
					if x.Blocking {
						problems = append(problems, "blocking select")
						at = in
					}
				case *ssa.UnOp:
					if x.Op == token.ARROW {
						problems = append(problems, "channel receive")
						at = in
					}
				case *ssa.Go:
				case ssa.CallInstruction:
					if c2, acq2, ok := c.lockClassOfCall(x); ok && acq2 {
						if !(cl == "statedb.dbState.mu" && c2 == "statedb.acquiredInfo.mu") {
							problems = append(problems, "acquires "+c2)
							at = in
						}
						continue
					}
					if blockingExt[c.calleeName(x)] {
						problems = append(problems, "calls "+c.calleeName(x))
						at = in
					}
					for _, e := range c.calleesAt(in) {
						if e.Kind == "callback" {
							problems = append(problems, "calls user code ("+e.Ext+")")
							at = in
							continue
						}
						if e.Callee == nil {
							continue
						}
						s := sums[e.Callee]
						for k := range s.blocks {
							if strings.Contains(k, "sync.(Mutex).Lock") {
								continue // judged through the acquired classes below
							}
							problems = append(problems, c.fnName(e.Callee)+" may block ("+k+")")
							at = in
						}
						for k := range s.acquires {
							if !(cl == "statedb.dbState.mu" && k == "statedb.acquiredInfo.mu") {
								problems = append(problems, c.fnName(e.Callee)+" acquires "+k)
								at = in
							}
						}
						for k := range s.user {
							problems = append(problems, c.fnName(e.Callee)+" calls user code ("+k+")")
							at = in
						}
					}
				}
			}
			if len(problems) == 0 {
				r.ok(key, c.posStr(instrPos(call)), "nothing blocks, no other lock class and no user code inside the critical section")
			} else {
				sort.Strings(problems)
				r.bad(key, c.posStr(instrPos(at)), "inside the "+cl+" critical section: "+strings.Join(dedupStr(problems), "; ")+" - every commit and table registration waits behind it")
			}
		}
	}
	if n < 4 {
		r.undecided("regions", "-", fmt.Sprintf("expected at least 4 dbState.mu/acquiredInfo.mu regions, found %d", n))
	}
}

func dedupStr(s []string) []string {
	var out []string
	for i, x := range s {
		if i == 0 || s[i-1] != x {
			out = append(out, x)
		}
	}
	if len(out) > 4 {
		out = append(out[:4], "...")
	}
	return out
}

func ruleSortedLock(c *Ctx, r *Reporter) {
	// (1) SortableMutexes.Lock sorts before locking
	if fn := c.Func("internal", "SortableMutexes", "Lock"); fn != nil {
		var sortCall ssa.CallInstruction
		for _, call := range c.callsNamed(fn, "slices.SortFunc", "slices.SortStableFunc", "sort.Slice", "sort.SliceStable") {
			if len(call.Common().Args) > 0 && stripConv(call.Common().Args[0]) == ssa.Value(fn.Params[0]) {
				sortCall = call
			}
		}
		locks := c.callsNamed(fn, "iface:internal.SortableMutex.Lock", "iface:sync.Locker.Lock")
		good := sortCall != nil && len(locks) > 0
		for _, l := range locks {
			if sortCall == nil || !instrDominates(sortCall, l) {
				good = false
			}
			// the mutex locked is an element of the sorted slice
			if p, ok := isLoad(l.Common().Value); ok {
				if ix, ok := p.(*ssa.IndexAddr); !ok || stripConv(ix.X) != ssa.Value(fn.Params[0]) {
					good = false
				}
			} else {
				good = false
			}
		}
		// independence: a transaction that is still waiting for one of its tables must not sit on the
		// others (its doc comment says it does). Acquiring in a loop of blocking Lock() calls holds the
		// lower-numbered locks while sleeping on a busy one; a try-lock/back-off scheme would not.
		{
			blockingLoop := false
			var at ssa.Instruction
			for _, l := range locks {
				in := l.(ssa.Instruction)
				if blockReaches(in.Block(), in.Block()) {
					blockingLoop = true
					at = in
				}
			}
			hasTry := len(c.callsNamed(fn, "iface:internal.SortableMutex.TryLock")) > 0
			p := c.posStr(fn.Pos())
			if at != nil {
				p = c.posStr(instrPos(at))
			}
			r.check(!blockingLoop || hasTry, "internal.(SortableMutexes).Lock|does not hold acquired locks while waiting for a busy one", p, "the bulk acquire backs off instead of sleeping with locks held", "the bulk acquire sleeps on a busy table lock while holding the locks it already took: with T1 = WriteTxn(b) open, a queued T2 = WriteTxn(b, a) holds a, and T3 = WriteTxn(a) waits for T1 although they share no table")
		}
		// comparator uses Seq()
		cmpOK := false
		if sortCall != nil && len(sortCall.Common().Args) > 1 {
			var cf *ssa.Function
			switch x := sortCall.Common().Args[1].(type) {
			case *ssa.Function:
				cf = x
			case *ssa.MakeClosure:
				cf, _ = x.Fn.(*ssa.Function)
			}
			if cf != nil {
				on := map[ssa.Value]bool{}
				for _, ia := range allInstrs(cf) {
					if call, ok := ia.In.(*ssa.Call); ok && call.Call.IsInvoke() && call.Call.Method.Name() == "Seq" {
						on[call.Call.Value] = true
					}
				}
				cmpOK = len(cf.Params) == 2 && on[cf.Params[0]] && on[cf.Params[1]]
			}
		}
		r.check(good && cmpOK, "internal.(SortableMutexes).Lock|sorted by Seq before locking", c.posStr(fn.Pos()),
			"the slice is sorted with a comparator over Seq() and the acquiring loop ranges over that slice afterwards",
			"the mutexes are not sorted by their unique sequence number before being locked in order: two transactions on {A,B} and {B,A} can deadlock")
	} else {
		r.anchorMissing("internal.(SortableMutexes).Lock")
	}
	// (2) NewSortableMutex: seq is the result of an atomic Add
	if fn := c.Func("internal", "", "NewSortableMutex"); fn != nil {
		good := false
		for _, ia := range allInstrs(fn) {
			st, ok := ia.In.(*ssa.Store)
			if !ok || !isFieldAddrOf(st.Addr, "sortableMutex", "seq") {
				continue
			}
			if call, ok := st.Val.(*ssa.Call); ok {
				if n := c.calleeName(call); n == "sync/atomic.(Uint64).Add" {
					if g, ok := call.Call.Args[0].(*ssa.Global); ok && g.Name() == "sortableMutexSeq" {
						good = true
					}
				}
			}
		}
		r.check(good, "internal.NewSortableMutex|unique seq", c.posStr(fn.Pos()), "seq is the value returned by one atomic Add on the global counter", "the sequence number is not the result of a single atomic Add: two mutexes created concurrently can get the same number, the lock order is no longer total")
	} else {
		r.anchorMissing("internal.NewSortableMutex")
	}
	// (3) WriteTxn de-duplicates tables
	if fn := c.Func("statedb", "DB", "WriteTxn"); fn != nil {
		// the slice ranged to fill txn.smus
		var src ssa.Value
		for _, ia := range allInstrs(fn) {
			st, ok := ia.In.(*ssa.Store)
			if !ok {
				continue
			}
			ix, ok := st.Addr.(*ssa.IndexAddr)
			if !ok {
				continue
			}
			if _, ok := loadOfField(ix.X, "writeTxnState", "smus"); !ok {
				continue
			}
			if call, ok := st.Val.(*ssa.Call); ok && call.Call.IsInvoke() && call.Call.Method.Name() == "sortableMutex" {
				if p, ok := isLoad(call.Call.Value); ok {
					if ix2, ok := p.(*ssa.IndexAddr); ok {
						src = ix2.X
					}
				}
			}
		}
		good := false
		why := "the slice of tables whose mutexes are collected is not the result of a de-duplication"
		if call, ok := src.(*ssa.Call); ok {
			switch c.calleeName(call) {
			case "slices.DeleteFunc":
				// predicate: map lookup + update keyed by tablePos()
				var pf *ssa.Function
				switch x := call.Call.Args[1].(type) {
				case *ssa.MakeClosure:
					pf, _ = x.Fn.(*ssa.Function)
				case *ssa.Function:
					pf = x
				}
				if pf != nil {
					var lk *ssa.Lookup
					var mu *ssa.MapUpdate
					for _, ia := range allInstrs(pf) {
						switch x := ia.In.(type) {
						case *ssa.Lookup:
							if x.CommaOk {
								lk = x
							}
						case *ssa.MapUpdate:
							mu = x
						}
					}
					if lk != nil && mu != nil && lk.Index == mu.Key {
						if kc, ok := lk.Index.(*ssa.Call); ok && kc.Call.IsInvoke() && kc.Call.Method.Name() == "tablePos" {
							good = true
						}
					}
					why = "the duplicate filter is not a seen-set keyed by tablePos()"
				}
			case "slices.Compact", "slices.CompactFunc":
				// only adjacent duplicates: the input must have been sorted
				sorted := false
				for _, sc := range c.callsNamed(fn, "slices.SortFunc", "slices.SortStableFunc", "slices.Sort") {
					if instrDominates(sc, call) {
						sorted = true
					}
				}
				good = sorted
				why = "Compact removes only adjacent duplicates and the table list is not sorted first"
			}
		}
		r.check(good, "statedb.(DB).WriteTxn|duplicate tables removed", c.posStr(fn.Pos()), "tables are de-duplicated by position before their mutexes are collected", why+": WriteTxn(a, b, a) locks a's mutex twice and deadlocks on itself")
	} else {
		r.anchorMissing("statedb.(DB).WriteTxn")
	}
}

// ---- TXN-PAIR on go/cfg ----

func ruleTxnPair(c *Ctx, r *Reporter) {
	n := 0
	for _, p := range c.Pkgs {
		info := p.TypesInfo
		isWriteTxnCall := func(e ast.Expr) bool {
			call, ok := e.(*ast.CallExpr)
			if !ok {
				return false
			}
			sel, ok := call.Fun.(*ast.SelectorExpr)
			if !ok || sel.Sel.Name != "WriteTxn" {
				return false
			}
			if s := info.Selections[sel]; s != nil {
				if f, ok := s.Obj().(*types.Func); ok && f.Pkg() != nil && f.Pkg().Path() == modPath {
					return namedTypeName(s.Recv()) == "DB"
				}
			}
			return false
		}
		for _, f := range p.Syntax {
			// every function body (declared and literal) is its own CFG
			var bodies []struct {
				name string
				body *ast.BlockStmt
			}
			for _, d := range f.Decls {
				fd, ok := d.(*ast.FuncDecl)
				if !ok || fd.Body == nil {
					continue
				}
				name := fd.Name.Name
				if fd.Recv != nil && len(fd.Recv.List) > 0 {
					name = "(" + types.ExprString(fd.Recv.List[0].Type) + ")." + name
				}
				bodies = append(bodies, struct {
					name string
					body *ast.BlockStmt
				}{shortPkg(p.PkgPath) + "." + name, fd.Body})
				k := 0
				ast.Inspect(fd.Body, func(nd ast.Node) bool {
					if fl, ok := nd.(*ast.FuncLit); ok {
						k++
						bodies = append(bodies, struct {
							name string
							body *ast.BlockStmt
						}{fmt.Sprintf("%s.%s$lit%d", shortPkg(p.PkgPath), name, k), fl.Body})
					}
					return true
				})
			}
			for _, bd := range bodies {
				g := cfg.New(bd.body, func(call *ast.CallExpr) bool {
					if id, ok := call.Fun.(*ast.Ident); ok && id.Name == "panic" {
						return false
					}
					return true
				})
				// find WriteTxn calls directly in this body (not in nested literals)
				for _, blk := range g.Blocks {
					for ni, node := range blk.Nodes {
						var lhs *ast.Ident
						found := false
						switch st := node.(type) {
						case *ast.AssignStmt:
							if len(st.Rhs) == 1 && isWriteTxnCall(st.Rhs[0]) && len(st.Lhs) == 1 {
								lhs, _ = st.Lhs[0].(*ast.Ident)
								found = true
							}
						case *ast.ExprStmt:
							if isWriteTxnCall(st.X) {
								found = true
							}
						default:
							// WriteTxn nested in another expression: handed off
							ast.Inspect(node, func(nd ast.Node) bool {
								if _, ok := nd.(*ast.FuncLit); ok {
									return false
								}
								if e, ok := nd.(ast.Expr); ok && isWriteTxnCall(e) {
									found = true
								}
								return true
							})
						}
						if !found {
							continue
						}
						n++
						key := fmt.Sprintf("%s|WriteTxn", bd.name)
						pos := c.posStr(node.Pos())
						if lhs == nil {
							r.undecided(key, pos, "the WriteTxn result is not assigned to a local variable: cannot track Commit/Abort")
							continue
						}
						obj := info.ObjectOf(lhs)
						isFinisher := func(nd ast.Node) bool {
							fin := false
							ast.Inspect(nd, func(x ast.Node) bool {
								if _, ok := x.(*ast.FuncLit); ok {
									return false
								}
								call, ok := x.(*ast.CallExpr)
								if !ok {
									return true
								}
								sel, ok := call.Fun.(*ast.SelectorExpr)
								if !ok || (sel.Sel.Name != "Commit" && sel.Sel.Name != "Abort") {
									return true
								}
								if id, ok := sel.X.(*ast.Ident); ok && info.ObjectOf(id) == obj {
									fin = true
								}
								return true
							})
							return fin
						}
						opensAnother := func(nd ast.Node) bool {
							o := false
							ast.Inspect(nd, func(x ast.Node) bool {
								if _, ok := x.(*ast.FuncLit); ok {
									return false
								}
								if e, ok := x.(ast.Expr); ok && isWriteTxnCall(e) {
									o = true
								}
								return true
							})
							return o
						}
						// walk forward from the node after W
						leak := ""
						nested := ""
						seen := map[*cfg.Block]bool{}
						var walk func(b *cfg.Block, start int)
						walk = func(b *cfg.Block, start int) {
							for i := start; i < len(b.Nodes); i++ {
								nd := b.Nodes[i]
								if isFinisher(nd) {
									return
								}
								if opensAnother(nd) && nested == "" {
									nested = c.posStr(nd.Pos())
								}
								if ret, ok := nd.(*ast.ReturnStmt); ok {
									if leak == "" {
										leak = c.posStr(ret.Pos())
									}
									return
								}
							}
							if len(b.Succs) == 0 && b.Live {
								// fell off the end of the function (or no-return call)
								if len(b.Nodes) > 0 {
									if es, ok := b.Nodes[len(b.Nodes)-1].(*ast.ExprStmt); ok {
										if call, ok := es.X.(*ast.CallExpr); ok {
											if id, ok := call.Fun.(*ast.Ident); ok && id.Name == "panic" {
												return
											}
										}
									}
								}
								if leak == "" {
									leak = "end of function"
								}
								return
							}
							for _, s := range b.Succs {
								if !seen[s] {
									seen[s] = true
									walk(s, 0)
								}
							}
						}
						walk(blk, ni+1)
						switch {
						case leak != "":
							r.bad(key, pos, "a path from this WriteTxn reaches "+leak+" without Commit or Abort: the table stays locked forever and every later writer of it blocks")
						case nested != "":
							r.bad(key, pos, "another WriteTxn is opened at "+nested+" while this one is still open: nested write transactions deadlock when they share a table (or against a transaction holding them in the other order)")
						default:
							r.ok(key, pos, "every non-panicking path reaches Commit/Abort (or a deferred one) before the function exits, and no second WriteTxn is opened meanwhile")
						}
					}
				}
			}
		}
	}
	if n == 0 {
		r.anchorMissing("WriteTxn call sites")
	}
}

func ruleWtxnBlocks(c *Ctx, r *Reporter) {
	cg := c.CG()
	for _, spec := range [][3]string{{"statedb", "DB", "WriteTxn"}, {"statedb", "writeTxnHandle", "Commit"}, {"statedb", "writeTxnHandle", "Abort"}} {
		fn := c.Func(spec[0], spec[1], spec[2])
		if fn == nil {
			r.anchorMissing(spec[0] + ".(" + spec[1] + ")." + spec[2])
			continue
		}
		reach := cg.Reach([]*ssa.Function{fn}, func(e *CGEdge) bool { return e.Go })
		var bad []string
		var badAt ssa.Instruction
		var badFn *ssa.Function
		nops := 0
		for _, f := range sortedFns(c, reach) {
			for _, op := range c.blockingOps(f) {
				nops++
				okOp := false
				switch {
				case strings.Contains(op.what, nSmusLock), strings.Contains(op.what, "internal.SortableMutex"), strings.Contains(op.what, "sync.Locker"):
					okOp = true
				case strings.Contains(op.what, nMutexLock):
					if call, ok := op.in.(ssa.CallInstruction); ok {
						if cl, _, ok := c.lockClassOfCall(call); ok {
							switch cl {
							case "statedb.dbState.mu", "statedb.acquiredInfo.mu", "internal.sortableMutex.Mutex":
								okOp = true
							}
						}
					}
				}
				if !okOp {
					bad = append(bad, op.what+" in "+c.fnName(f))
					badAt = op.in
					badFn = f
				}
			}
		}
		key := c.fnName(fn) + "|blocking operations"
		if len(bad) == 0 {
			r.ok(key, c.posStr(fn.Pos()), fmt.Sprintf("%d functions reachable, %d blocking operations, all of them table locks / dbState.mu / acquiredInfo.mu", len(reach), nops))
		} else {
			r.bad(key, c.posStr(instrPos(badAt)), "a blocking operation other than the table locks and the two short mutexes is reachable: "+strings.Join(dedupStr(bad), "; ")+" - a transaction can be delayed by something that does not share a table with it", cg.path(reach, badFn)...)
		}
	}
}

func init() {
	register(&Rule{
		ID: "LOCK-PAIR", Props: []string{"C10"}, Floor: 8,
		Doc: "every mutex acquired by library code is released on every non-panicking path to the function's exit (an explicit Unlock on the path, or a deferred Unlock registered while held)",
		Run: ruleLockPair,
	})
}

func ruleLockPair(c *Ctx, r *Reporter) {
	n := 0
	for _, fn := range c.Funcs {
		if fn.Package() == nil {
			continue
		}
		if pk := shortPkg(fn.Package().Pkg.Path()); strings.HasPrefix(pk, "reconciler/") {
			continue
		}
		ord, ordP := 0, 0
		for _, ia := range allInstrs(fn) {
			call, ok := ia.In.(ssa.CallInstruction)
			if !ok {
				continue
			}
			if _, isDefer := ia.In.(*ssa.Defer); isDefer {
				continue
			}
			cl, acq, ok := c.lockClassOfCall(call)
			if ok && acq && cl != "internal.sortableMutex.Mutex" {
				// no explicit panic while the lock is held, unless a deferred Unlock releases it:
				// a recovered panic would leave the lock held forever
				deferred := false
				for _, ib := range allInstrs(fn) {
					if d, isDefer := ib.In.(*ssa.Defer); isDefer {
						if cl2, acq2, ok2 := c.lockClassOfCall(d); ok2 && !acq2 && cl2 == cl {
							deferred = true
						}
					}
				}
				var pan ssa.Instruction
				if !deferred {
					for _, in := range c.heldRegion(fn, call, cl) {
						if p, isPanic := in.(*ssa.Panic); isPanic && pan == nil {
							pan = p
						}
					}
				}
				ordP++
				keyP := fmt.Sprintf("%s|%s#%d no explicit panic while held", c.fnName(fn), cl, ordP)
				if pan == nil {
					r.ok(keyP, c.posStr(instrPos(ia.In)), "no panic statement is reachable between the Lock and its release (or the release is deferred)")
				} else {
					r.bad(keyP, c.posStr(instrPos(pan)), "a panic statement is reachable while "+cl+" is held and no deferred Unlock releases it: a caller that recovers (or a test harness) leaves the lock held and every later acquirer blocks forever - validate before acquiring")
				}
			}
			if !ok || !acq || cl == classTables || cl == "internal.sortableMutex.Mutex" {
				// table locks are paired across functions (TXN-PAIR, ABORT-PURE, COMMIT-ORDER);
				// sortableMutex.Lock is the acquiring wrapper itself
				continue
			}
			n++
			ord++
			key := fmt.Sprintf("%s|%s#%d released on all exits", c.fnName(fn), cl, ord)
			leak := reachesReturnAvoiding(ia.In, func(in ssa.Instruction) bool {
				c2, ok := in.(ssa.CallInstruction)
				if !ok {
					return false
				}
				cl2, acq2, ok := c.lockClassOfCall(c2)
				return ok && !acq2 && cl2 == cl // explicit or deferred unlock of the same class
			}, nil)
			if leak == nil {
				r.ok(key, c.posStr(instrPos(ia.In)), "every path from the Lock to a return passes an Unlock (or a defer of it)")
			} else {
				r.bad(key, c.posStr(instrPos(leak)), "a path returns with "+cl+" still held: every later acquirer (commit, registration, metrics reader) blocks forever")
			}
		}
	}
	if n < 8 {
		r.undecided("locks", "-", fmt.Sprintf("expected at least 8 mutex acquisitions in library code, found %d", n))
	}
}

func init() {
	register(&Rule{
		ID: "GUARDED-BY", Props: []string{"C20", "C16", "C10"}, Floor: 15,
		Doc: "the fields a mutex protects are only touched while it is held: WatchSet.chans/cases under WatchSet.mu, acquiredInfo.* under acquiredInfo.mu, progressTracker.* under progressTracker.mu (constructors excepted)",
		Run: ruleGuardedBy,
	})
}

// guarded fields: struct -> (mutex class, fields, properties)
var guardedFields = []struct {
	typ, pkg string
	class    string
	fields   map[string]bool
	props    []string
}{
	{"WatchSet", "statedb", "statedb.WatchSet.mu", map[string]bool{"chans": true, "cases": true}, []string{"C20"}},
	{"acquiredInfo", "statedb", "statedb.acquiredInfo.mu", map[string]bool{"handle": true, "acquiredAt": true, "duration": true}, []string{"C10"}},
	{"progressTracker", "reconciler", "reconciler.progressTracker.mu", map[string]bool{"revision": true, "retryLowWatermark": true, "watch": true}, []string{"C16"}},
}

func ruleGuardedBy(c *Ctx, r *Reporter) {
	n := 0
	for _, fn := range c.Funcs {
		// the instructions executed while each class is held in this function
		held := map[string]map[ssa.Instruction]bool{}
		for _, ia := range allInstrs(fn) {
			call, ok := ia.In.(ssa.CallInstruction)
			if !ok {
				continue
			}
			if _, isDefer := ia.In.(*ssa.Defer); isDefer {
				continue
			}
			cl, acq, ok := c.lockClassOfCall(call)
			if !ok || !acq {
				continue
			}
			if held[cl] == nil {
				held[cl] = map[ssa.Instruction]bool{}
			}
			for _, in := range c.heldRegion(fn, call, cl) {
				held[cl][in] = true
			}
		}
		ord := map[string]int{}
		for _, ia := range allInstrs(fn) {
			fa, ok := ia.In.(*ssa.FieldAddr)
			if !ok {
				continue
			}
			tn, f, ok := fieldOf(fa)
			if !ok {
				continue
			}
			for _, g := range guardedFields {
				if tn != g.typ || !g.fields[f] {
					continue
				}
				// constructors: the object is a fresh allocation not yet shared
				if _, isAlloc := fa.X.(*ssa.Alloc); isAlloc {
					continue
				}
				// function literals deferred inside a holding function run while it is held
				inHeld := held[g.class][ia.In]
				if !inHeld && fn.Parent() != nil {
					inHeld = deferredInHolder(c, fn, g.class)
				}
				n++
				base := fmt.Sprintf("%s|%s.%s", c.fnName(fn), tn, f)
				ord[base]++
				key := fmt.Sprintf("%s#%d", base, ord[base])
				if inHeld {
					r.okP(g.props, key, c.posStr(instrPos(fa)), "accessed while "+g.class+" is held")
				} else {
					r.badP(g.props, key, c.posStr(instrPos(fa)), tn+"."+f+" is accessed without holding "+g.class+": concurrent callers race on it")
				}
			}
		}
	}
	if n < 15 {
		r.undecided("accesses", "-", fmt.Sprintf("expected at least 15 accesses to guarded fields, found %d", n))
	}
}

// deferredInHolder: fn is a function literal that its parent defers while holding class.
func deferredInHolder(c *Ctx, fn *ssa.Function, class string) bool {
	p := fn.Parent()
	for _, ia := range allInstrs(p) {
		d, ok := ia.In.(*ssa.Defer)
		if !ok {
			continue
		}
		mc, ok := d.Call.Value.(*ssa.MakeClosure)
		if !ok || mc.Fn != ssa.Value(fn) {
			continue
		}
		// the parent holds the class until its deferred unlock, which was registered earlier
		for _, ib := range allInstrs(p) {
			if d2, ok := ib.In.(*ssa.Defer); ok {
				if cl, acq, ok := c.lockClassOfCall(d2); ok && !acq && cl == class && instrDominates(d2, d) {
					return true
				}
			}
		}
	}
	return false
}

func init() {
	register(&Rule{
		ID: "WTXN-FRESH", Props: []string{"C05"}, Floor: 3,
		Doc: "what a library function writes into a table entry of its write transaction (delete trackers, initialization record, revision, indexes) is never computed from a read snapshot (DB.ReadTxn) taken in the same function before the write transaction was opened: the writer starts from the state of the table at lock acquisition, a snapshot taken before the lock misses what committed in between",
		Run: ruleWtxnFresh,
	})
}

func ruleWtxnFresh(c *Ctx, r *Reporter) {
	n := 0
	for _, fn := range c.Funcs {
		if fn.Parent() != nil || fn.Package() == nil {
			continue
		}
		pk := shortPkg(fn.Package().Pkg.Path())
		if pk != "statedb" && pk != "reconciler" {
			continue
		}
		fns := withAnon(fn)
		// stores to fields of a table entry
		var stores []*ssa.Store
		for _, f := range fns {
			for _, ia := range allInstrs(f) {
				if st, ok := ia.In.(*ssa.Store); ok {
					if fa, ok := st.Addr.(*ssa.FieldAddr); ok {
						if tn, _, ok := fieldOf(fa); ok && tn == "tableEntry" {
							stores = append(stores, st)
						}
					}
				}
			}
		}
		if len(stores) == 0 {
			continue
		}
		// forward taint from DB.ReadTxn() results
		taint := map[ssa.Value]bool{}
		for _, f := range fns {
			for _, ia := range allInstrs(f) {
				if call, ok := ia.In.(*ssa.Call); ok && c.calleeName(call) == "statedb.(DB).ReadTxn" {
					// a snapshot taken while the write transaction is already open sees, for the
					// locked tables, exactly what the transaction started from
					locked := false
					for _, ib := range allInstrs(f) {
						if w, ok := ib.In.(*ssa.Call); ok && c.calleeName(w) == "statedb.(DB).WriteTxn" && instrDominates(w, call) {
							locked = true
						}
					}
					if !locked {
						taint[call] = true
					}
				}
			}
		}
		if len(taint) > 0 {
			for changed := true; changed; {
				changed = false
				for _, f := range fns {
					for _, ia := range allInstrs(f) {
						switch x := ia.In.(type) {
						case *ssa.Store:
							if taint[x.Val] {
								root := x.Addr
								for {
									if fa, ok := root.(*ssa.FieldAddr); ok {
										root = fa.X
										continue
									}
									if ix, ok := root.(*ssa.IndexAddr); ok {
										root = ix.X
										continue
									}
									break
								}
								if al, ok := root.(*ssa.Alloc); ok && !taint[al] {
									taint[al] = true
									changed = true
								}
							}
						case ssa.Value:
							if taint[x] {
								continue
							}
							for _, op := range ia.In.Operands(nil) {
								if *op != nil && taint[*op] {
									taint[x] = true
									changed = true
									break
								}
							}
						}
					}
				}
			}
		}
		for i, st := range stores {
			n++
			_, f, _ := fieldOf(st.Addr.(*ssa.FieldAddr))
			r.check(!taint[st.Val], fmt.Sprintf("%s|tableEntry.%s#%d is not computed from a read snapshot", c.fnName(fn), f, i+1), c.posStr(instrPos(st)), "the stored value does not derive from a DB.ReadTxn() of this function", "the value written into the transaction's table entry is computed from a read snapshot taken in this function instead of from the entry the transaction got at lock acquisition: whatever another transaction committed to that table between the snapshot and the lock (a delete tracker registered by Changes(), an initializer) is overwritten with the stale state")
		}
	}
	r.note("%d stores to table entries in functions of the library checked", n)
}
