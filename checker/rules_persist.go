package main

import (
	"fmt"
	"go/token"
	"go/types"
	"strings"

	"golang.org/x/tools/go/ssa"
)

func init() {
	register(&Rule{
		ID: "OWN-CTOR", Props: []string{"C01", "C11", "C13", "C17", "C12", "C06"}, Default: []string{"C01", "C11", "C13", "C17"}, Floor: 9,
		Doc: "each owning constructor returns a fresh copy, or its argument only on the edge where the node's txnID equals the transaction's, and stamps fresh copies with the transaction's current txnID; header.clone/promote/newLeaf return fresh nodes and clone copies the node of the same kind",
		Run: ruleOwnCtor,
	})
	register(&Rule{
		ID: "TXNID-STORES", Props: []string{"C01", "C11", "C13", "C17"}, Floor: 8,
		Doc: "every store to a node's txnID writes the current id of the transaction (directly, or through a txnID parameter whose call sites pass it): a node carries id T only if it was created in epoch T",
		Run: ruleTxnIDStores,
	})
	register(&Rule{
		ID: "HELPER-SHAPE", Props: []string{"C01", "C11", "C17"}, Floor: 7,
		Doc: "the alias-returning helpers the ownership analysis trusts (self, node4/16/48/256, children, getLeaf, isLeaf) have the bodies it assumes",
		Run: ruleHelperShape,
	})
	register(&Rule{
		ID: "FREEZE", Props: []string{"C01", "C11", "C13", "C17"}, Floor: 9,
		Doc: "a transaction method that lets node pointers reachable from txn.root escape (iterator, tree, trie, Iterator.All with a caller's yield) increments txn.txnID before every read of txn.root that can escape",
		Run: ruleFreeze,
	})
	register(&Rule{
		ID: "EPOCH", Props: []string{"C01", "C11", "C13", "C17"}, Floor: 5,
		Doc: "a Tree built from a transaction takes nextTxnID from the incremented txn.txnID and Tree.Txn starts there; a Trie records prevTxnID=txn.txnID and Trie.Txn/Txn.Reuse start at prevTxnID+1: a later transaction never shares an id with nodes of a published version",
		Run: ruleEpoch,
	})
	register(&Rule{
		ID: "WTXN-PRIVATE", Props: []string{"C01", "C05"}, Floor: 6,
		Doc: "`locked` is set to true in exactly one place: on an Alloc'd struct copy of the entry in DB.WriteTxn whose indexes slice is re-assigned from slices.Clone before the copy is stored into txn.tableEntries at the position of a table whose lock was just acquired; it is set to false only in Commit",
		Run: ruleWtxnPrivate,
	})
	register(&Rule{
		ID: "OWNED-FIELD", Props: []string{"C01", "C02"}, Floor: 4,
		Doc: "every store to writeTxnState.tableEntries is nil or a fresh slice; no element of a root slice is written after it was passed to db.root.Store in the same function",
		Run: ruleOwnedField,
	})
}

// isTxnIDLoad: v is *(&txn.txnID) for a value of the package's Txn type.
func isTxnIDLoad(v ssa.Value) (ssa.Value, bool) {
	x, ok := loadOfField(v, "Txn", "txnID")
	return x, ok
}

func returnsOf(fn *ssa.Function) []*ssa.Return {
	var out []*ssa.Return
	for _, b := range fn.Blocks {
		if len(b.Instrs) == 0 || b == fn.Recover {
			continue // the recover block re-returns the result slots after a recovered panic
		}
		if r, ok := b.Instrs[len(b.Instrs)-1].(*ssa.Return); ok {
			out = append(out, r)
		}
	}
	return out
}

func ruleOwnCtor(c *Ctx, r *Reporter) {
	im := c.immutEngine()
	for _, spec := range []struct {
		pkg, recv, name string
		nodeParam       int
		props           []string
	}{
		{"part", "Txn", "cloneNode", 1, []string{"C01", "C11", "C17"}},
		{"lpm", "Txn", "clone", 1, []string{"C01", "C13"}},
	} {
		fn := c.Func(spec.pkg, spec.recv, spec.name)
		if fn == nil {
			r.anchorMissing(spec.pkg + ".(" + spec.recv + ")." + spec.name)
			continue
		}
		name := c.fnName(fn)
		np := fn.Params[spec.nodeParam]
		for i, ret := range returnsOf(fn) {
			key := fmt.Sprintf("%s|return#%d", name, i+1)
			pos := c.posStr(instrPos(ret))
			v := stripConv(ret.Results[0])
			switch {
			case isNilConst(v):
				r.okP(spec.props, key, pos, "returns nil")
			case v == ssa.Value(np):
				// must be on the edge where n.txnID == txn.txnID
				gated := false
				for _, f := range factsAt(ret.Block()) {
					if !f.Val {
						continue
					}
					b, ok := f.Cond.(*ssa.BinOp)
					if !ok || b.Op != token.EQL {
						continue
					}
					for _, pair := range [][2]ssa.Value{{b.X, b.Y}, {b.Y, b.X}} {
						_, isTxn := isTxnIDLoad(pair[1])
						if !isTxn {
							continue
						}
						// node side: n.txnID() call or *(&n.txnID)
						if call, ok := pair[0].(*ssa.Call); ok {
							if f := staticCallee(call); f != nil && f.Name() == "txnID" && len(call.Call.Args) > 0 && call.Call.Args[0] == ssa.Value(np) {
								gated = true
							}
						}
						if x, ok := loadOfField(pair[0], "lpmNode", "txnID"); ok && x == ssa.Value(np) {
							gated = true
						}
					}
				}
				// part: leaves carry no transaction id (txnID() answers 0 for them, and the first
				// transaction of a tree runs with id 0), so the in-place edge must exclude leaves
				if gated && spec.pkg == "part" {
					leafOut := false
					for _, f := range factsAt(ret.Block()) {
						cond, val := stripNot(f.Cond, f.Val)
						if call, ok := cond.(*ssa.Call); ok && !val {
							if sf := staticCallee(call); sf != nil && c.fnName(sf) == isLeafName && len(call.Call.Args) > 0 && call.Call.Args[0] == ssa.Value(np) {
								leafOut = true
							}
						}
					}
					r.checkP(append([]string{"C12", "C06"}, spec.props...), leafOut, name+"|leaves are never taken as owned", pos, "the in-place edge requires !n.isLeaf()", "cloneNode can return a leaf unchanged: leaves report txnID 0 and so does the first transaction of a tree, which then overwrites leaves in place without marking their watch channel (InsertWatch(k); Insert(k) in the first transaction leaves the channel open)")
				}
				if gated {
					r.okP(spec.props, key, pos, "returns its argument only where the node's txnID equals the transaction's txnID")
				} else {
					r.badP(spec.props, key, pos, "the constructor that licenses in-place mutation returns its argument without the txnID gate: nodes of published versions would be mutated in place")
				}
			default:
				cl := im.classify(v, fn, ret.Block())
				if len(cl.shared) > 0 || len(cl.params) > 0 {
					r.badP(spec.props, key, pos, "the constructor that licenses in-place mutation returns something that is not a fresh copy")
					continue
				}
				// stamped with the current txnID
				stamped := false
				for _, ia := range allInstrs(fn) {
					switch x := ia.In.(type) {
					case *ssa.Call:
						if f := staticCallee(x); f != nil && f.Name() == "setTxnID" && len(x.Call.Args) == 2 && stripConv(x.Call.Args[0]) == v {
							if _, ok := isTxnIDLoad(x.Call.Args[1]); ok && instrDominates(x, ret) {
								stamped = true
							}
						}
					case *ssa.Store:
						if fa, ok := x.Addr.(*ssa.FieldAddr); ok && stripConv(fa.X) == v {
							if _, f, _ := fieldOf(fa); f == "txnID" {
								if _, ok := isTxnIDLoad(x.Val); ok && instrDominates(x, ret) {
									stamped = true
								}
							}
						}
					}
				}
				if stamped {
					r.okP(spec.props, key, pos, "returns a fresh copy stamped with the transaction's current txnID")
				} else {
					r.badP(spec.props, key, pos, "the fresh copy is not stamped with the transaction's current txnID: it keeps the id of an older epoch (or a later epoch may match it)")
				}
			}
		}
	}
	// fresh-returning constructors
	for n := range freshCtors {
		var fn *ssa.Function
		for _, f := range c.Funcs {
			if c.fnName(f) == n {
				fn = f
			}
		}
		if fn == nil {
			r.anchorMissing(n)
			continue
		}
		for i, ret := range returnsOf(fn) {
			key := fmt.Sprintf("%s|return#%d", n, i+1)
			cl := im.classify(ret.Results[0], fn, ret.Block())
			if len(cl.shared) == 0 && len(cl.params) == 0 {
				r.okP([]string{"C01", "C11", "C17"}, key, c.posStr(instrPos(ret)), "returns a node allocated in the function")
			} else {
				r.badP([]string{"C01", "C11", "C17"}, key, c.posStr(instrPos(ret)), "a node constructor the ownership analysis treats as fresh returns shared memory")
			}
		}
	}
	// header.clone copies the node of the same kind
	if fn := c.Func("part", "header", "clone"); fn != nil {
		n := 0
		for _, ia := range allInstrs(fn) {
			a, ok := ia.In.(*ssa.Alloc)
			if !ok {
				continue
			}
			tn := namedTypeName(a.Type())
			if !(tn == "leaf" || strings.HasPrefix(tn, "node")) {
				continue
			}
			n++
			key := fmt.Sprintf("part.(header).clone|copy %s", tn)
			good := false
			for _, st := range storesTo(fn, a) {
				if p, ok := isLoad(st.Val); ok && namedTypeName(p.Type()) == tn {
					root, _ := c.immutEngine().peel(p)
					if call, ok := root.(*ssa.Call); ok { // getLeaf(n)
						if len(call.Call.Args) > 0 {
							root = call.Call.Args[0]
						}
					}
					if root == ssa.Value(fn.Params[0]) {
						good = true
					}
				}
			}
			r.checkP([]string{"C01", "C11", "C17"}, good, key, c.posStr(a.Pos()), "clone copies the whole "+tn+" of its receiver", "clone does not copy the complete "+tn+" of its receiver")
		}
		if n < 5 {
			r.undecided("part.(header).clone|kinds", c.posStr(fn.Pos()), fmt.Sprintf("expected 5 node kinds copied in clone, found %d", n))
		}
	} else {
		r.anchorMissing("part.(header).clone")
	}
}

func (r *Reporter) checkP(props []string, cond bool, key, pos, okMsg, badMsg string) {
	if cond {
		r.okP(props, key, pos, okMsg)
	} else {
		r.badP(props, key, pos, badMsg)
	}
}

func ruleTxnIDStores(c *Ctx, r *Reporter) {
	isNodeTxnID := func(fa *ssa.FieldAddr) (string, bool) {
		tn, f, ok := fieldOf(fa)
		if !ok || f != "txnID" {
			return "", false
		}
		if strings.HasPrefix(tn, "node") || tn == "lpmNode" {
			return tn, true
		}
		return "", false
	}
	// functions with a parameter that is stored into a node txnID
	paramFns := map[*ssa.Function]int{}
	for _, fn := range c.Funcs {
		for _, ia := range allInstrs(fn) {
			st, ok := ia.In.(*ssa.Store)
			if !ok {
				continue
			}
			fa, ok := st.Addr.(*ssa.FieldAddr)
			if !ok {
				continue
			}
			tn, ok := isNodeTxnID(fa)
			if !ok {
				continue
			}
			key := fmt.Sprintf("%s|store %s.txnID", c.fnName(fn), tn)
			pos := c.posStr(instrPos(st))
			props := []string{"C01", "C11", "C17"}
			if tn == "lpmNode" {
				props = []string{"C01", "C13"}
			}
			if _, ok := isTxnIDLoad(st.Val); ok {
				r.okP(props, key, pos, "stores the transaction's current txnID")
				continue
			}
			if p, ok := st.Val.(*ssa.Parameter); ok {
				for i, q := range fn.Params {
					if q == p {
						paramFns[fn] = i
					}
				}
				r.okP(props, key, pos, "stores its txnID parameter (call sites checked)")
				continue
			}
			if cst, ok := st.Val.(*ssa.Const); ok && cst.Value != nil {
				r.badP(props, key, pos, "a constant is stored as a node's txnID")
				continue
			}
			// whole-struct copies carry the old id; a copy is then stamped (OWN-CTOR)
			r.badP(props, key, pos, "a node's txnID is set to something other than the transaction's current id: a later transaction with that id would mutate the node in place")
		}
	}
	for fn, pi := range paramFns {
		for _, e := range c.CG().In[fn] {
			call, ok := e.Site.(ssa.CallInstruction)
			if !ok {
				continue
			}
			args := callArgs(call)
			if pi >= len(args) {
				continue
			}
			key := fmt.Sprintf("%s|call %s(txnID)", c.fnName(e.Caller), fn.Name())
			props := []string{"C01", "C11", "C17"}
			if _, ok := isTxnIDLoad(args[pi]); ok {
				r.okP(props, key, c.posStr(instrPos(e.Site)), "passes the transaction's current txnID")
			} else if p, ok := args[pi].(*ssa.Parameter); ok && isUint64(p.Type()) {
				r.okP(props, key, c.posStr(instrPos(e.Site)), "forwards its own txnID parameter")
			} else {
				r.badP(props, key, c.posStr(instrPos(e.Site)), "a node is stamped with something other than the transaction's current txnID")
			}
		}
	}
}

func ruleHelperShape(c *Ctx, r *Reporter) {
	props := []string{"C01", "C11", "C17"}
	for n := range aliasHelpers {
		var fn *ssa.Function
		for _, f := range c.Funcs {
			if c.fnName(f) == n {
				fn = f
			}
		}
		if fn == nil {
			r.anchorMissing(n)
			continue
		}
		good := true
		why := ""
		for _, ret := range returnsOf(fn) {
			v := ret.Results[0]
			if isNilConst(v) {
				continue
			}
			root, _ := c.immutEngine().peel(v)
			if root != ssa.Value(fn.Params[0]) {
				good = false
				why = "returns " + describe(v)
			}
		}
		r.checkP(props, good, n+"|aliases-receiver", c.posStr(fn.Pos()), "every non-nil result is an interior pointer/slice of the receiver", "a helper the ownership analysis treats as alias of its receiver returns something else ("+why+")")
	}
	// getLeaf: returns the receiver itself (converted) or a leaf pointer loaded from the node
	if fn := c.Func("part", "header", "getLeaf"); fn != nil {
		conv, loaded, other := 0, 0, 0
		for _, ret := range returnsOf(fn) {
			v := ret.Results[0]
			if stripConv(v) == ssa.Value(fn.Params[0]) {
				conv++
				// must be under kind()==nodeKindLeaf
				okEdge := false
				for _, f := range factsAt(ret.Block()) {
					if b, ok := f.Cond.(*ssa.BinOp); ok && f.Val && b.Op == token.EQL {
						if k, ok := constInt(b.Y); ok && k == 1 {
							okEdge = true
						}
					}
				}
				if !okEdge {
					other++
				}
			} else if _, ok := isLoad(v); ok {
				loaded++
			} else {
				other++
			}
		}
		r.checkP(props, conv == 1 && loaded == 4 && other == 0, "part.(header).getLeaf|shape", c.posStr(fn.Pos()),
			"getLeaf returns the receiver only for kind==leaf and the stored leaf pointer for the four node kinds",
			fmt.Sprintf("getLeaf has an unexpected shape (receiver-returns=%d, loaded=%d, other=%d): the ownership analysis' alias assumption does not hold", conv, loaded, other))
	} else {
		r.anchorMissing("part.(header).getLeaf")
	}
	if fn := c.Func("part", "header", "isLeaf"); fn != nil {
		good := false
		for _, ret := range returnsOf(fn) {
			if b, ok := ret.Results[0].(*ssa.BinOp); ok && b.Op == token.EQL {
				if k, ok := constInt(b.Y); ok && k == 1 {
					if call, ok := b.X.(*ssa.Call); ok {
						if f := staticCallee(call); f != nil && f.Name() == "kind" {
							good = true
						}
					}
				}
			}
		}
		r.checkP(props, good, "part.(header).isLeaf|shape", c.posStr(fn.Pos()), "isLeaf is kind()==nodeKindLeaf", "isLeaf is not kind()==nodeKindLeaf: the ownership analysis' leaf facts do not hold")
	} else {
		r.anchorMissing("part.(header).isLeaf")
	}
}

// containsNodePtr: does type t (transitively, through structs/slices/pointers
// up to a small depth) contain a pointer to a radix/trie node?
func containsNodePtr(t types.Type, depth int) bool {
	if depth > 4 {
		return false
	}
	switch x := types.Unalias(t).(type) {
	case *types.Pointer:
		n := namedTypeName(x.Elem())
		if n == "header" || n == "lpmNode" || n == "leaf" {
			return true
		}
		return containsNodePtr(x.Elem(), depth+1)
	case *types.Named:
		return containsNodePtr(x.Underlying(), depth+1)
	case *types.Struct:
		for i := 0; i < x.NumFields(); i++ {
			if containsNodePtr(x.Field(i).Type(), depth+1) {
				return true
			}
		}
	case *types.Slice:
		return containsNodePtr(x.Elem(), depth+1)
	case *types.Array:
		return containsNodePtr(x.Elem(), depth+1)
	}
	return false
}

func txnIDIncrements(fn *ssa.Function) []*ssa.Store {
	var out []*ssa.Store
	for _, ia := range allInstrs(fn) {
		st, ok := ia.In.(*ssa.Store)
		if !ok || !isFieldAddrOf(st.Addr, "Txn", "txnID") {
			continue
		}
		if b, ok := st.Val.(*ssa.BinOp); ok && b.Op == token.ADD {
			if _, ok := isTxnIDLoad(b.X); ok {
				if k, ok := constInt(b.Y); ok && k == 1 {
					out = append(out, st)
				}
			}
		}
	}
	return out
}

func ruleFreeze(c *Ctx, r *Reporter) {
	for _, pkg := range []string{"part", "lpm"} {
		props := []string{"C01", "C11", "C17"}
		if pkg == "lpm" {
			props = []string{"C01", "C13"}
		}
		for _, fn := range c.Funcs {
			if fn.Parent() != nil || recvTypeName(fn) != "Txn" || fn.Package() == nil || shortPkg(fn.Package().Pkg.Path()) != pkg {
				continue
			}
			if fn.Object() == nil || !fn.Object().Exported() {
				continue
			}
			escapes := false
			res := fn.Signature.Results()
			for i := 0; i < res.Len(); i++ {
				if namedTypeName(res.At(i).Type()) == "Txn" {
					continue // the transaction itself (Reuse)
				}
				if containsNodePtr(res.At(i).Type(), 0) {
					escapes = true
				}
			}
			for _, call := range c.callsNamed(fn, "part.(Iterator).All", "lpm.(Iterator).All") {
				_ = call
				escapes = true
			}
			if !escapes {
				continue
			}
			name := c.fnName(fn)
			incs := txnIDIncrements(fn)
			if pkg == "lpm" && fn.Name() == "Commit" {
				// the Trie records the epoch (EPOCH) with the id the nodes carry; the transaction itself
				// must move on to a new id before the Trie leaves the function, or writes made through
				// the same transaction afterwards modify the committed trie's nodes in place
				frozen := len(incs) > 0
				for _, ia := range allInstrs(fn) {
					u, ok := ia.In.(*ssa.UnOp)
					if !ok {
						continue
					}
					if _, ok := loadOfField(u, "Txn", "root"); !ok {
						continue
					}
					isInc := func(in ssa.Instruction) bool {
						for _, inc := range incs {
							if inc == in {
								return true
							}
						}
						return false
					}
					dom := false
					for _, inc := range incs {
						if instrDominates(inc, u) {
							dom = true
						}
					}
					if !dom && reachesReturnAvoiding(u, isInc, nil) != nil {
						frozen = false
					}
				}
				r.checkP(props, frozen, name+"|freezes the committed trie", c.posStr(fn.Pos()), "txn.txnID is incremented before the Trie built from txn.root is returned", "lpm.Txn.Commit hands out txn.root without moving the transaction to a new id: writes made through the same transaction afterwards modify the committed trie (and iterators taken from it) in place")
				continue
			}
			n := 0
			for _, ia := range allInstrs(fn) {
				u, ok := ia.In.(*ssa.UnOp)
				if !ok {
					continue
				}
				if _, ok := loadOfField(u, "Txn", "root"); !ok {
					continue
				}
				// loads only compared against nil do not escape
				onlyNilCmp := true
				if refs := u.Referrers(); refs != nil {
					for _, ref := range *refs {
						if b, ok := ref.(*ssa.BinOp); ok && (b.Op == token.EQL || b.Op == token.NEQ) && (isNilConst(b.X) || isNilConst(b.Y)) {
							continue
						}
						if _, ok := ref.(*ssa.DebugRef); ok {
							continue
						}
						// passed to a result-less module function (validation): cannot reach the result
						if call, ok := ref.(*ssa.Call); ok {
							if f := staticCallee(call); f != nil && c.inModule(f) && f.Signature.Results().Len() == 0 && f.Signature.Recv() == nil {
								continue
							}
						}
						onlyNilCmp = false
					}
				}
				if onlyNilCmp {
					continue
				}
				n++
				key := fmt.Sprintf("%s|root-read#%d", name, n)
				dominated := false
				for _, inc := range incs {
					if instrDominates(inc, u) {
						dominated = true
					}
				}
				r.checkP(props, dominated, key, c.posStr(instrPos(u)),
					"txn.txnID++ dominates the read of txn.root that escapes",
					"node pointers reachable from txn.root escape (iterator/tree/yield) without txn.txnID being incremented first: later writes in this transaction mutate the nodes the escaped value still walks")
			}
			if n == 0 {
				// delegation to another (checked) method of the transaction
				delegated := false
				for _, ia := range allInstrs(fn) {
					if call, ok := ia.In.(*ssa.Call); ok {
						if f := staticCallee(call); f != nil && recvTypeName(f) == "Txn" && f.Object() != nil && f.Object().Exported() {
							rs := f.Signature.Results()
							for i := 0; i < rs.Len(); i++ {
								if containsNodePtr(rs.At(i).Type(), 0) {
									delegated = true
								}
							}
						}
					}
				}
				if delegated {
					r.okP(props, name+"|delegates", c.posStr(fn.Pos()), "obtains the node-carrying value from another exported method of the transaction, which is checked itself")
				} else {
					r.undecidedP(props, name+"|root-read", c.posStr(fn.Pos()), "method returns a node-carrying value but no read of txn.root was found")
				}
			}
		}
	}
}

func ruleEpoch(c *Ctx, r *Reporter) {
	// part: composite literals of Tree with root from txn.root
	for _, fn := range c.Funcs {
		if fn.Package() == nil {
			continue
		}
		pk := shortPkg(fn.Package().Pkg.Path())
		if pk != "part" && pk != "lpm" {
			continue
		}
		for _, ia := range allInstrs(fn) {
			a, ok := ia.In.(*ssa.Alloc)
			if !ok {
				continue
			}
			tn := namedTypeName(a.Type())
			if !(pk == "part" && tn == "Tree") && !(pk == "lpm" && tn == "Trie") {
				continue
			}
			var rootFromTxn, idOK bool
			var idStore *ssa.Store
			for _, ib := range allInstrs(fn) {
				st, ok := ib.In.(*ssa.Store)
				if !ok {
					continue
				}
				fa, ok := st.Addr.(*ssa.FieldAddr)
				if !ok || fa.X != ssa.Value(a) {
					continue
				}
				_, f, _ := fieldOf(fa)
				switch f {
				case "root":
					if _, ok := loadOfField(st.Val, "Txn", "root"); ok {
						rootFromTxn = true
					}
				case "nextTxnID", "prevTxnID":
					idStore = st
					if _, ok := isTxnIDLoad(st.Val); ok {
						idOK = true
					}
				}
			}
			if !rootFromTxn {
				continue
			}
			key := fmt.Sprintf("%s|%s{root: txn.root}", c.fnName(fn), tn)
			props := []string{"C01", "C11", "C17"}
			if pk == "lpm" {
				props = []string{"C01", "C13"}
			}
			if !idOK || idStore == nil {
				r.badP(props, key, c.posStr(a.Pos()), "a "+tn+" is built from a transaction's root without recording the transaction's txnID as its epoch: the next transaction may reuse an id carried by published nodes")
				continue
			}
			if pk == "part" {
				dom := false
				for _, inc := range txnIDIncrements(fn) {
					if instrDominates(inc, idStore) {
						dom = true
					}
				}
				r.checkP(props, dom, key, c.posStr(a.Pos()), "nextTxnID is taken from txn.txnID after an increment", "nextTxnID is taken from txn.txnID without incrementing it first: the next transaction shares the id of nodes in the published tree and mutates them in place")
			} else {
				r.okP(props, key, c.posStr(a.Pos()), "prevTxnID records txn.txnID")
			}
		}
	}
	// starters
	check := func(pkg, recv, name, srcType, srcField string, plusOne bool, props []string) {
		fn := c.Func(pkg, recv, name)
		if fn == nil {
			r.anchorMissing(pkg + ".(" + recv + ")." + name)
			return
		}
		key := c.fnName(fn) + "|txnID start"
		good := false
		var pos token.Pos = fn.Pos()
		for _, ia := range allInstrs(fn) {
			st, ok := ia.In.(*ssa.Store)
			if !ok {
				continue
			}
			fa, ok := st.Addr.(*ssa.FieldAddr)
			if !ok {
				continue
			}
			if tn, f, _ := fieldOf(fa); tn != "Txn" || f != "txnID" {
				continue
			}
			pos = st.Pos()
			v := st.Val
			if plusOne {
				b, ok := v.(*ssa.BinOp)
				if !ok || b.Op != token.ADD {
					continue
				}
				if k, ok := constInt(b.Y); !ok || k != 1 {
					continue
				}
				v = b.X
			}
			if _, ok := loadOfField(v, srcType, srcField); ok {
				good = true
			}
			if f, ok := v.(*ssa.Field); ok {
				if _, fname, _ := fieldOf(f); fname == srcField {
					good = true
				}
			}
		}
		exp := srcType + "." + srcField
		if plusOne {
			exp += "+1"
		}
		r.checkP(props, good, key, c.posStr(pos), "the transaction starts at "+exp, "the transaction's txnID does not start at "+exp+": it may equal the id of nodes of a published version")
	}
	check("part", "Tree", "Txn", "Tree", "nextTxnID", false, []string{"C01", "C11", "C17"})
	check("lpm", "Trie", "Txn", "Trie", "prevTxnID", true, []string{"C01", "C13"})
	check("lpm", "Txn", "Reuse", "Trie", "prevTxnID", true, []string{"C01", "C13"})
}

func ruleWtxnPrivate(c *Ctx, r *Reporter) {
	var trueStores, falseStores int
	for _, fn := range c.Funcs {
		for _, ia := range allInstrs(fn) {
			st, ok := ia.In.(*ssa.Store)
			if !ok || !isFieldAddrOf(st.Addr, "tableEntry", "locked") {
				continue
			}
			who := c.fnName(topLevel(fn))
			cst, isConst := st.Val.(*ssa.Const)
			val := "?"
			if isConst && cst.Value != nil {
				val = cst.Value.String()
			}
			key := fmt.Sprintf("%s|locked=%s", who, val)
			pos := c.posStr(instrPos(st))
			switch {
			case val == "true" && who == "statedb.(DB).WriteTxn":
				trueStores++
				wtxnPrivateSite(c, r, fn, st)
			case val == "false" && who == "statedb.(writeTxnHandle).Commit":
				falseStores++
				r.ok(key, pos, "locked is cleared by Commit on the entry it publishes")
			default:
				r.bad(key, pos, "`locked` is written outside DB.WriteTxn(true)/Commit(false): the flag is the ownership witness for every in-place write to a table entry")
			}
		}
	}
	if trueStores != 1 {
		r.bad("statedb.(DB).WriteTxn|locked=true sites", "-", fmt.Sprintf("expected exactly one `locked = true` in DB.WriteTxn, found %d", trueStores))
	}
	if falseStores == 0 {
		r.anchorMissing("locked=false in Commit")
	}
}

func wtxnPrivateSite(c *Ctx, r *Reporter, fn *ssa.Function, st *ssa.Store) {
	name := c.fnName(fn)
	pos := c.posStr(instrPos(st))
	fa := st.Addr.(*ssa.FieldAddr)
	a, ok := fa.X.(*ssa.Alloc)
	if !ok {
		r.bad(name+"|locked on a private copy", pos, "`locked = true` is set through a pointer that is not a local struct copy: the committed entry itself is marked locked (and will be mutated in place)")
		return
	}
	r.ok(name+"|locked on a private copy", pos, "locked=true is set on an Alloc'd tableEntry")
	// (2) initialised by struct copy from txn.tableEntries[pos]
	var srcIdx ssa.Value
	copied := false
	for _, s := range storesTo(fn, a) {
		if p, ok := isLoad(s.Val); ok {
			if ep, ok := isLoad(p); ok {
				if ix, ok := ep.(*ssa.IndexAddr); ok {
					if _, ok := loadOfField(ix.X, "writeTxnState", "tableEntries"); ok {
						copied = true
						srcIdx = ix.Index
					}
				}
			}
		}
	}
	r.check(copied, name+"|copy of txn.tableEntries[pos]", pos, "the private entry is a struct copy of the entry at pos in the cloned root", "the private entry is not initialised as a copy of txn.tableEntries[pos]")
	// (3) indexes cloned before publication
	var idxStore *ssa.Store
	for _, ia := range allInstrs(fn) {
		s, ok := ia.In.(*ssa.Store)
		if !ok {
			continue
		}
		f2, ok := s.Addr.(*ssa.FieldAddr)
		if !ok || f2.X != ssa.Value(a) {
			continue
		}
		if _, f, _ := fieldOf(f2); f == "indexes" {
			if call, ok := s.Val.(*ssa.Call); ok && c.calleeName(call) == nClone {
				if p, ok := isLoad(call.Call.Args[0]); ok {
					if f3, ok := p.(*ssa.FieldAddr); ok && f3.X == ssa.Value(a) {
						idxStore = s
					}
				}
			}
		}
	}
	// (4) stored into txn.tableEntries[pos]
	var pub *ssa.Store
	for _, ia := range allInstrs(fn) {
		s, ok := ia.In.(*ssa.Store)
		if !ok || s.Val != ssa.Value(a) {
			continue
		}
		if ix, ok := s.Addr.(*ssa.IndexAddr); ok {
			if _, ok := loadOfField(ix.X, "writeTxnState", "tableEntries"); ok && ix.Index == srcIdx {
				pub = s
			}
		}
	}
	r.check(pub != nil, name+"|stored at the same pos", pos, "the private entry replaces position pos of txn.tableEntries", "the private entry is not stored back at the position it was copied from")
	r.check(idxStore != nil && (pub == nil || instrDominates(idxStore, pub)), name+"|indexes cloned", pos,
		"the private entry's indexes slice is a slices.Clone of the committed one, assigned before the entry is installed",
		"the private entry shares the committed entry's indexes slice: indexWriteTxn/Commit store index transactions into a slice that snapshots read")
	// (5) pos = table.tablePos() of an element of the slice whose mutexes were locked
	var lockedSlice, posSlice ssa.Value
	if call, ok := srcIdx.(*ssa.Call); ok && call.Call.IsInvoke() && call.Call.Method.Name() == "tablePos" {
		if p, ok := isLoad(call.Call.Value); ok {
			if ix, ok := p.(*ssa.IndexAddr); ok {
				posSlice = ix.X
			}
		}
	}
	for _, ia := range allInstrs(fn) {
		s, ok := ia.In.(*ssa.Store)
		if !ok {
			continue
		}
		ix, ok := s.Addr.(*ssa.IndexAddr)
		if !ok {
			continue
		}
		if _, ok := loadOfField(ix.X, "writeTxnState", "smus"); !ok {
			continue
		}
		if call, ok := s.Val.(*ssa.Call); ok && call.Call.IsInvoke() && call.Call.Method.Name() == "sortableMutex" {
			if p, ok := isLoad(call.Call.Value); ok {
				if ix2, ok := p.(*ssa.IndexAddr); ok {
					lockedSlice = ix2.X
				}
			}
		}
	}
	r.check(lockedSlice != nil && lockedSlice == posSlice, name+"|locked tables = acquired tables", pos,
		"the loop that marks entries locked ranges over the same slice whose mutexes were collected and locked",
		"entries are marked locked for a different set of tables than the one whose locks were acquired")
}

func ruleOwnedField(c *Ctx, r *Reporter) {
	n := 0
	for _, fn := range c.Funcs {
		for _, ia := range allInstrs(fn) {
			st, ok := ia.In.(*ssa.Store)
			if !ok || !isFieldAddrOf(st.Addr, "writeTxnState", "tableEntries") {
				continue
			}
			n++
			key := fmt.Sprintf("%s|tableEntries=", c.fnName(fn))
			pos := c.posStr(instrPos(st))
			v := st.Val
			switch x := v.(type) {
			case *ssa.Const:
				r.ok(key+"nil", pos, "cleared")
			case *ssa.MakeSlice:
				r.ok(key+"make", pos, "fresh slice")
			case *ssa.Call:
				if c.calleeName(x) == nClone {
					r.ok(key+"slices.Clone", pos, "fresh clone")
				} else {
					r.bad(key+c.calleeName(x), pos, "writeTxnState.tableEntries receives a slice that is not fresh: element writes through it (WriteTxn, Commit) would modify a published root")
				}
			default:
				r.bad(key+"?", pos, "writeTxnState.tableEntries receives a slice that is not fresh: element writes through it (WriteTxn, Commit) would modify a published root")
			}
		}
	}
	if n == 0 {
		r.anchorMissing("store to writeTxnState.tableEntries")
	}
	// no write to the published slice after root.Store
	for _, fnn := range [][3]string{{"statedb", "DB", "registerTable"}, {"statedb", "writeTxnHandle", "Commit"}} {
		fn := c.Func(fnn[0], fnn[1], fnn[2])
		if fn == nil {
			continue
		}
		for _, s := range c.rootStores(fn) {
			pub := publishedArg(s)
			bad := false
			var where ssa.Instruction
			for _, ia := range allInstrs(fn) {
				st, ok := ia.In.(*ssa.Store)
				if !ok {
					continue
				}
				root := addrRoot(st.Addr)
				touches := root == pub
				if ix, ok := st.Addr.(*ssa.IndexAddr); ok {
					if p, ok := isLoad(ix.X); ok && p == pub {
						touches = true
					}
				}
				if touches && instrReaches(s, st) {
					bad = true
					where = st
				}
			}
			key := c.fnName(fn) + "|no-write-after-publish"
			if bad {
				r.bad(key, c.posStr(instrPos(where)), "the root slice is written after it was passed to db.root.Store: readers holding the new root observe the modification")
			} else {
				r.ok(key, c.posStr(instrPos(s)), "no store to the published root slice after db.root.Store")
			}
		}
	}
}

// retValues resolves defer-spilled results: in a function with defers go/ssa
// stores each result into a slot, runs the defers and returns loads of the
// slots. The effective value is what was stored in the slot in that block.
func retValues(ret *ssa.Return) []ssa.Value {
	out := make([]ssa.Value, len(ret.Results))
	b := ret.Block()
	for i, r := range ret.Results {
		out[i] = r
		p, ok := isLoad(r)
		if !ok {
			continue
		}
		a, ok := p.(*ssa.Alloc)
		if !ok {
			continue
		}
		for j := len(b.Instrs) - 1; j >= 0; j-- {
			if st, ok := b.Instrs[j].(*ssa.Store); ok && st.Addr == ssa.Value(a) {
				out[i] = st.Val
				break
			}
		}
	}
	return out
}

func isUint64(t types.Type) bool {
	b, ok := t.Underlying().(*types.Basic)
	return ok && b.Kind() == types.Uint64
}

func init() {
	register(&Rule{
		ID: "FIELD-WRITERS", Props: []string{"C02", "C09", "C19"}, Floor: 12,
		Doc: "each field of tableEntry has a frozen set of functions that may store to it (revision: modify/delete only; init: RegisterInitializer and Commit; deleteTrackers: addDeleteTracker/close/construction; indexes: WriteTxn/construction, its elements additionally indexWriteTxn/Commit); Abort, readers, the collector and everything else never write table metadata",
		Run: ruleFieldWriters,
	})
}

var entryFieldWriters = map[string]map[string]bool{
	"revision":       {"statedb.(writeTxnState).modify": true, "statedb.(writeTxnState).delete": true},
	"init":           {"statedb.(genTable).RegisterInitializer": true, "statedb.(writeTxnHandle).Commit": true},
	"deleteTrackers": {"statedb.(writeTxnState).addDeleteTracker": true, "statedb.(deleteTracker).close": true, "statedb.(genTable).tableEntry": true},
	"indexes":        {"statedb.(DB).WriteTxn": true, "statedb.(genTable).tableEntry": true},
	"indexes[]":      {"statedb.(writeTxnState).indexWriteTxn": true, "statedb.(writeTxnHandle).Commit": true, "statedb.(genTable).tableEntry": true},
	"meta":           {"statedb.(genTable).tableEntry": true},
	"locked":         {"statedb.(DB).WriteTxn": true, "statedb.(writeTxnHandle).Commit": true},
}

func ruleFieldWriters(c *Ctx, r *Reporter) {
	n := 0
	for _, fn := range c.Funcs {
		for _, ia := range allInstrs(fn) {
			st, ok := ia.In.(*ssa.Store)
			if !ok {
				continue
			}
			field := ""
			switch a := st.Addr.(type) {
			case *ssa.FieldAddr:
				if tn, f, _ := fieldOf(a); tn == "tableEntry" {
					field = f
				}
			case *ssa.IndexAddr:
				if _, ok := loadOfField(a.X, "tableEntry", "indexes"); ok {
					field = "indexes[]"
				}
			}
			if field == "" {
				// whole-struct store into a tableEntry allocation is construction/copy
				continue
			}
			n++
			who := c.fnName(topLevel(fn))
			key := fmt.Sprintf("%s|store tableEntry.%s", who, field)
			props := []string{"C02"}
			switch field {
			case "revision":
				props = []string{"C02", "C09"}
			case "init":
				props = []string{"C02", "C19"}
			}
			if entryFieldWriters[field][who] {
				r.okP(props, key, c.posStr(instrPos(st)), "allowed writer of tableEntry."+field)
			} else {
				r.badP(props, key, c.posStr(instrPos(st)), "tableEntry."+field+" is written by a function outside its frozen writer set: table metadata (revision, initialization, trackers, indexes) changes outside the write primitives / Commit")
			}
		}
	}
	if n < 12 {
		r.undecided("stores", "-", fmt.Sprintf("expected at least 12 stores to tableEntry fields, found %d", n))
	}
}
