package main

import (
	"bytes"
	"fmt"
	"go/constant"
	"go/token"
	"go/types"
	"strings"

	"golang.org/x/tools/go/ssa"
)

func init() {
	register(&Rule{
		ID: "ENC-TABLE", Props: []string{"C18", "C04"}, Floor: 5,
		Doc: "the byte code extracted from appendEncode (all 256 bytes, exhaustive) is prefix-free, strictly order-preserving, never emits the separator byte and every code word starts above the separator; together these make enc(secondary)·sep·enc(primary) injective and order-preserving for arbitrary byte strings",
		Run: ruleEncTable,
	})
	register(&Rule{
		ID: "ENC-AGREE", Props: []string{"C18"}, Floor: 3,
		Doc: "encodedLength counts exactly one extra byte for exactly the bytes appendEncode expands; appendEncode's reported length equals the bytes it appends; encodeNonUniqueBytes returns its input only when the lengths agree",
		Run: ruleEncAgree,
	})
	register(&Rule{
		ID: "ENC-LAYOUT", Props: []string{"C18", "C04"}, Floor: 5,
		Doc: "encodeNonUniqueKey appends enc(secondary), the separator constant, enc(primary) and the 16-bit length of the encoded primary, in that order; the nonUniqueKey accessors use trailer 2 / delimiter 1 consistently",
		Run: ruleEncLayout,
	})
	register(&Rule{
		ID: "ENC-ENDIAN", Props: []string{"C18", "C09"}, Floor: 8,
		Doc: "every fixed-width integer encoding/decoding in the module uses binary.BigEndian (bytewise order = numeric order); no little-endian call exists",
		Run: ruleEncEndian,
	})
	register(&Rule{
		ID: "ENC-NARROW", Props: []string{"C18"}, Floor: 6,
		Doc: "no integer key encoder of package index narrows its own parameter (equal keys must mean equal values)",
		Run: ruleEncNarrow,
	})
}

// byteSim interprets one iteration of a `for _, b := range src` loop body for
// a concrete byte value: it follows branches whose conditions compare b with
// constants, records appended bytes and constant increments of integer phis.
type byteSim struct {
	fn      *ssa.Function
	hdr     *ssa.BasicBlock
	body    *ssa.BasicBlock
	elem    ssa.Value // the loaded byte
	problem string
}

func findByteLoop(fn *ssa.Function) *byteSim {
	for _, b := range fn.Blocks {
		for _, in := range b.Instrs {
			u, ok := in.(*ssa.UnOp)
			if !ok || u.Op != token.MUL {
				continue
			}
			ix, ok := u.X.(*ssa.IndexAddr)
			if !ok {
				continue
			}
			if bt, ok := u.Type().Underlying().(*types.Basic); !ok || bt.Kind() != types.Uint8 {
				continue
			}
			if _, ok := ix.X.(*ssa.Parameter); !ok {
				continue
			}
			// b is the loop body; its single predecessor is the header
			if len(b.Preds) == 1 {
				return &byteSim{fn: fn, hdr: b.Preds[0], body: b, elem: u}
			}
		}
	}
	return nil
}

type simResult struct {
	out  []int // appended bytes; -1 stands for "the input byte"
	incr map[*ssa.Phi]int64
}

func (s *byteSim) run(bv byte) (simResult, bool) {
	res := simResult{incr: map[*ssa.Phi]int64{}}
	blk := s.body
	var prev *ssa.BasicBlock
	steps := 0
	evalByte := func(v ssa.Value) (int64, bool) {
		if v == s.elem {
			return int64(bv), true
		}
		if c, ok := v.(*ssa.Const); ok && c.Value != nil && c.Value.Kind() == constant.Int {
			i, ok := constant.Int64Val(c.Value)
			return i, ok
		}
		return 0, false
	}
	// integers are tracked symbolically as "value of a header phi at loop entry + constant";
	// phis of inner blocks (e.g. the post block of a three-clause for) are resolved by the
	// edge this iteration actually took
	cameFrom := map[*ssa.BasicBlock]*ssa.BasicBlock{}
	type symInt struct {
		base *ssa.Phi
		k    int64
		ok   bool
	}
	var evalInt func(v ssa.Value, depth int) symInt
	evalInt = func(v ssa.Value, depth int) symInt {
		if depth > 16 {
			return symInt{}
		}
		switch x := v.(type) {
		case *ssa.Phi:
			if x.Block() == s.hdr {
				return symInt{base: x, ok: true}
			}
			from := cameFrom[x.Block()]
			for i, p := range x.Block().Preds {
				if p == from {
					return evalInt(x.Edges[i], depth+1)
				}
			}
		case *ssa.BinOp:
			if x.Op == token.ADD || x.Op == token.SUB {
				l := evalInt(x.X, depth+1)
				if k, ok := constInt(x.Y); ok && l.ok {
					if x.Op == token.SUB {
						k = -k
					}
					return symInt{base: l.base, k: l.k + k, ok: true}
				}
			}
		}
		return symInt{}
	}
	for {
		steps++
		if steps > 64 {
			s.problem = "loop body does not return to the loop header"
			return res, false
		}
		if blk == s.hdr {
			// record which header phis were advanced by a constant in this iteration
			for _, in := range blk.Instrs {
				phi, ok := in.(*ssa.Phi)
				if !ok {
					break
				}
				for i, p := range blk.Preds {
					if p != prev {
						continue
					}
					if v := evalInt(phi.Edges[i], 0); v.ok && v.base == phi && v.k != 0 {
						res.incr[phi] = v.k
					}
				}
			}
			return res, true
		}
		cameFrom[blk] = prev
		for _, in := range blk.Instrs {
			call, ok := in.(*ssa.Call)
			if !ok {
				continue
			}
			b, ok := call.Call.Value.(*ssa.Builtin)
			if !ok {
				s.problem = "call in loop body: " + call.String()
				return res, false
			}
			if b.Name() != "append" {
				continue
			}
			sl, ok := call.Call.Args[1].(*ssa.Slice)
			if !ok {
				s.problem = "append of a non-literal: " + call.String()
				return res, false
			}
			arr, ok := sl.X.(*ssa.Alloc)
			if !ok {
				s.problem = "append of a non-literal: " + call.String()
				return res, false
			}
			n := int(arr.Type().(*types.Pointer).Elem().Underlying().(*types.Array).Len())
			elems := make([]int, n)
			for i := range elems {
				elems[i] = -2
			}
			for _, st := range storesToElems(s.fn, arr) {
				k, _ := constInt(st.Addr.(*ssa.IndexAddr).Index)
				if st.Val == s.elem {
					elems[k] = -1
				} else if v, ok := constInt(st.Val); ok {
					elems[k] = int(v)
				} else {
					s.problem = "appended byte is neither a constant nor the input byte"
					return res, false
				}
			}
			for _, e := range elems {
				if e == -2 {
					s.problem = "appended literal not fully initialised"
					return res, false
				}
				if e == -1 {
					res.out = append(res.out, int(bv))
				} else {
					res.out = append(res.out, e)
				}
			}
		}
		last := blk.Instrs[len(blk.Instrs)-1]
		prev = blk
		switch t := last.(type) {
		case *ssa.Jump:
			blk = blk.Succs[0]
		case *ssa.If:
			bo, ok := t.Cond.(*ssa.BinOp)
			if !ok {
				s.problem = "branch on something other than a byte comparison"
				return res, false
			}
			x, ok1 := evalByte(bo.X)
			y, ok2 := evalByte(bo.Y)
			if !ok1 || !ok2 {
				s.problem = "branch condition not over the input byte and constants: " + bo.String()
				return res, false
			}
			var v bool
			switch bo.Op {
			case token.EQL:
				v = x == y
			case token.NEQ:
				v = x != y
			case token.LSS:
				v = x < y
			case token.LEQ:
				v = x <= y
			case token.GTR:
				v = x > y
			case token.GEQ:
				v = x >= y
			default:
				s.problem = "unsupported comparison " + bo.Op.String()
				return res, false
			}
			if v {
				blk = blk.Succs[0]
			} else {
				blk = blk.Succs[1]
			}
		default:
			s.problem = "loop body leaves the loop (return/panic)"
			return res, false
		}
	}
}

func storesToElems(fn *ssa.Function, arr *ssa.Alloc) []*ssa.Store {
	var out []*ssa.Store
	for _, ia := range allInstrs(fn) {
		if st, ok := ia.In.(*ssa.Store); ok {
			if ix, ok := st.Addr.(*ssa.IndexAddr); ok && ix.X == ssa.Value(arr) {
				out = append(out, st)
			}
		}
	}
	return out
}

func sepConst(c *Ctx) (int64, bool) {
	p := c.ByPath[modPath]
	if p == nil {
		return 0, false
	}
	if o, ok := p.Types.Scope().Lookup("nonUniqueSeparator").(*types.Const); ok {
		v, ok := constant.Int64Val(o.Val())
		return v, ok
	}
	return 0, false
}

func extractCode(c *Ctx) (code [256][]byte, lenIncr [256]int64, sim *byteSim, err string) {
	fn := c.Func("statedb", "", "appendEncode")
	if fn == nil {
		return code, lenIncr, nil, "appendEncode not found"
	}
	sim = findByteLoop(fn)
	if sim == nil {
		return code, lenIncr, nil, "no `for _, b := range src` loop found in appendEncode"
	}
	for b := 0; b < 256; b++ {
		res, ok := sim.run(byte(b))
		if !ok {
			return code, lenIncr, sim, fmt.Sprintf("cannot reduce appendEncode to a table at byte 0x%02x: %s", b, sim.problem)
		}
		for _, x := range res.out {
			code[b] = append(code[b], byte(x))
		}
		for phi, k := range res.incr {
			if isReturnedInt(fn, phi) {
				lenIncr[b] = k
			}
		}
	}
	return code, lenIncr, sim, ""
}

func ruleEncTable(c *Ctx, r *Reporter) {
	code, _, sim, err := extractCode(c)
	if err != "" {
		r.undecided("statedb.appendEncode|table", "-", err)
		return
	}
	pos := c.posStr(sim.fn.Pos())
	sep, ok := sepConst(c)
	if !ok {
		r.anchorMissing("constant nonUniqueSeparator")
		return
	}
	r.note("extracted code: 0x00->%x 0x01->%x 0x02->%x ... 0xff->%x; separator 0x%02x", code[0], code[1], code[2], code[255], sep)
	// non-empty
	empty := -1
	for b := 0; b < 256; b++ {
		if len(code[b]) == 0 {
			empty = b
		}
	}
	r.check(empty < 0, "statedb.appendEncode|every byte has a non-empty code word", pos, "all 256 code words are non-empty", fmt.Sprintf("byte 0x%02x encodes to nothing: keys differing only in that byte collide", empty))
	// prefix-free (=> injective on strings)
	bad := ""
	for a := 0; a < 256 && bad == ""; a++ {
		for b := 0; b < 256; b++ {
			if a != b && bytes.HasPrefix(code[b], code[a]) {
				bad = fmt.Sprintf("code(0x%02x)=%x is a prefix of code(0x%02x)=%x", a, code[a], b, code[b])
				break
			}
		}
	}
	r.check(bad == "", "statedb.appendEncode|prefix-free", pos, "no code word is a prefix of another (65280 ordered pairs checked): the encoding of byte strings is injective", "the escape code is not prefix-free: "+bad+" - two different keys have the same encoding")
	// order preserving
	bad = ""
	for a := 0; a+1 < 256; a++ {
		if bytes.Compare(code[a], code[a+1]) >= 0 {
			bad = fmt.Sprintf("code(0x%02x)=%x >= code(0x%02x)=%x", a, code[a], a+1, code[a+1])
			break
		}
	}
	r.check(bad == "", "statedb.appendEncode|order-preserving", pos, "a < b implies code(a) < code(b) bytewise (255 adjacent pairs; with prefix-freeness this extends to strings)", "the escape code does not preserve order: "+bad+" - index iteration order differs from key order")
	// separator never emitted, and below every first byte
	bad = ""
	for b := 0; b < 256; b++ {
		for _, x := range code[b] {
			if int64(x) == sep {
				bad = fmt.Sprintf("code(0x%02x)=%x contains the separator 0x%02x", b, code[b], sep)
			}
		}
		if len(code[b]) > 0 && int64(code[b][0]) <= sep {
			bad = fmt.Sprintf("code(0x%02x)=%x does not start above the separator 0x%02x", b, code[b], sep)
		}
	}
	r.check(bad == "", "statedb.appendEncode|separator is unused and minimal", pos, "the separator byte occurs in no code word and is smaller than every code word's first byte: a shorter secondary key sorts before its extensions and the two parts can be separated", "separator condition violated: "+bad)
	r.check(sep == 0, "statedb.nonUniqueSeparator|is 0x00", pos, "separator is 0x00", "the separator constant is not 0x00")
}

func ruleEncAgree(c *Ctx, r *Reporter) {
	code, lenIncr, sim, err := extractCode(c)
	if err != "" {
		r.undecided("statedb.appendEncode|table", "-", err)
		return
	}
	// appendEncode's n matches the appended length
	bad := -1
	for b := 0; b < 256; b++ {
		if int(lenIncr[b]) != len(code[b]) {
			bad = b
		}
	}
	r.check(bad < 0, "statedb.appendEncode|reported length = appended bytes", c.posStr(sim.fn.Pos()), "for every byte the counter n grows by the number of bytes appended", fmt.Sprintf("for byte 0x%02x appendEncode appends %d byte(s) but counts %d: the primary-length trailer of the composite key is wrong", bad, len(code[max0(bad)]), lenIncr[max0(bad)]))
	// encodedLength
	fn := c.Func("statedb", "", "encodedLength")
	if fn == nil {
		r.anchorMissing("statedb.encodedLength")
		return
	}
	ls := findByteLoop(fn)
	if ls == nil {
		r.undecided("statedb.encodedLength|loop", c.posStr(fn.Pos()), "no byte loop found")
		return
	}
	bad = -1
	why := ""
	for b := 0; b < 256; b++ {
		res, ok := ls.run(byte(b))
		if !ok {
			r.undecided("statedb.encodedLength|table", c.posStr(fn.Pos()), fmt.Sprintf("cannot reduce encodedLength at byte 0x%02x: %s", b, ls.problem))
			return
		}
		var inc int64
		for phi, k := range res.incr {
			if isReturnedInt(fn, phi) {
				inc += k
			}
		}
		if int(inc)+1 != len(code[b]) {
			bad = b
			why = fmt.Sprintf("encodedLength adds %d for byte 0x%02x, appendEncode emits %d bytes", inc+1, b, len(code[b]))
		}
	}
	r.check(bad < 0, "statedb.encodedLength|agrees with appendEncode", c.posStr(fn.Pos()), "encodedLength = len(src) + number of bytes that appendEncode expands, for all 256 byte values", "encodedLength and appendEncode disagree: "+why+" - encodeNonUniqueBytes returns unescaped input or the buffer is mis-sized")
	// encodeNonUniqueBytes returns src only when n == len(src)
	if f := c.Func("statedb", "", "encodeNonUniqueBytes"); f != nil {
		good := false
		for _, ret := range returnsOf(f) {
			if ret.Results[0] != ssa.Value(f.Params[0]) {
				continue
			}
			for _, fct := range factsAt(ret.Block()) {
				if bo, ok := fct.Cond.(*ssa.BinOp); ok && bo.Op == token.EQL && fct.Val {
					isLenCall := func(v ssa.Value) bool {
						call, ok := v.(*ssa.Call)
						if !ok {
							return false
						}
						if b, ok := call.Call.Value.(*ssa.Builtin); ok && b.Name() == "len" {
							return call.Call.Args[0] == ssa.Value(f.Params[0])
						}
						return false
					}
					isEncLen := func(v ssa.Value) bool {
						call, ok := v.(*ssa.Call)
						if !ok {
							return false
						}
						sf := staticCallee(call)
						return sf != nil && sf.Name() == "encodedLength"
					}
					if (isLenCall(bo.X) && isEncLen(bo.Y)) || (isLenCall(bo.Y) && isEncLen(bo.X)) {
						good = true
					}
				}
			}
		}
		r.check(good, "statedb.encodeNonUniqueBytes|shortcut only when nothing is escaped", c.posStr(f.Pos()), "the input is returned unchanged only under encodedLength(src) == len(src)", "encodeNonUniqueBytes returns its input without the encodedLength(src) == len(src) test: search keys containing 0x00/0x01 are not escaped like the stored keys")
	} else {
		r.anchorMissing("statedb.encodeNonUniqueBytes")
	}
}

func max0(i int) int {
	if i < 0 {
		return 0
	}
	return i
}

func intConsts(fn *ssa.Function) []int64 {
	var out []int64
	for _, ia := range allInstrs(fn) {
		var ops []*ssa.Value
		ops = ia.In.Operands(ops)
		for _, o := range ops {
			if *o == nil {
				continue
			}
			if k, ok := constInt(*o); ok {
				if _, isPhi := ia.In.(*ssa.Phi); isPhi {
					continue
				}
				out = append(out, k)
			}
		}
	}
	return out
}

func ruleEncLayout(c *Ctx, r *Reporter) {
	fn := c.Func("statedb", "", "encodeNonUniqueKey")
	if fn == nil {
		r.anchorMissing("statedb.encodeNonUniqueKey")
		return
	}
	name := c.fnName(fn)
	sep, _ := sepConst(c)
	code, _, _, cerr := extractCode(c)
	minFirst := int64(256)
	if cerr == "" {
		for b := 0; b < 256; b++ {
			if len(code[b]) > 0 && int64(code[b][0]) < minFirst {
				minFirst = int64(code[b][0])
			}
		}
	}
	// parse the chain of appends behind the return value into parts
	type part struct {
		kind  string // "enc:primary", "enc:secondary", "bytes", "len16", "?"
		bytes []int64
	}
	var parts []part
	constBytes := func(v ssa.Value) ([]int64, bool) {
		sl, ok := v.(*ssa.Slice)
		if !ok {
			return nil, false
		}
		arr, ok := sl.X.(*ssa.Alloc)
		if !ok {
			return nil, false
		}
		n := int(arr.Type().(*types.Pointer).Elem().Underlying().(*types.Array).Len())
		out := make([]int64, n)
		seen := 0
		for _, st := range storesToElems(fn, arr) {
			k, _ := constInt(st.Addr.(*ssa.IndexAddr).Index)
			v, ok := constInt(st.Val)
			if !ok || int(k) >= n {
				return nil, false
			}
			out[k] = v
			seen++
		}
		return out, seen == n
	}
	ret := returnsOf(fn)
	why := ""
	if len(ret) != 1 {
		why = "more than one return"
	} else {
		v := ret[0].Results[0]
		for depth := 0; depth < 12 && v != nil; depth++ {
			switch x := v.(type) {
			case *ssa.Call:
				cn := c.calleeName(x)
				switch {
				case strings.HasSuffix(cn, "AppendUint16") && len(x.Call.Args) == 3:
					parts = append(parts, part{kind: "len16"})
					v = x.Call.Args[1]
					continue
				default:
					if b, ok := x.Call.Value.(*ssa.Builtin); ok && b.Name() == "append" {
						if bs, ok := constBytes(x.Call.Args[1]); ok {
							parts = append(parts, part{kind: "bytes", bytes: bs})
						} else {
							parts = append(parts, part{kind: "?"})
						}
						v = x.Call.Args[0]
						continue
					}
				}
				v = nil
			case *ssa.Extract:
				if enc, ok := x.Tuple.(*ssa.Call); ok && x.Index == 1 && c.calleeName(enc) == "statedb.appendEncode" {
					src := stripConv(enc.Call.Args[1])
					switch src {
					case ssa.Value(fn.Params[0]):
						parts = append(parts, part{kind: "enc:primary"})
					case ssa.Value(fn.Params[1]):
						parts = append(parts, part{kind: "enc:secondary"})
					default:
						parts = append(parts, part{kind: "?"})
					}
					v = enc.Call.Args[0]
					continue
				}
				v = nil
			default:
				v = nil // the initial make
			}
		}
	}
	// reverse
	for i, j := 0, len(parts)-1; i < j; i, j = i+1, j-1 {
		parts[i], parts[j] = parts[j], parts[i]
	}
	var shape []string
	for _, p := range parts {
		shape = append(shape, p.kind)
	}
	good := why == "" && len(parts) == 4 && parts[0].kind == "enc:secondary" && parts[1].kind == "bytes" && len(parts[1].bytes) == 1 && parts[1].bytes[0] == sep && parts[2].kind == "enc:primary"
	if why == "" && !good {
		why = "the key is not enc(secondary), the separator constant, enc(primary), tail (found: " + strings.Join(shape, ", ") + ")"
	}
	r.check(good, name+"|enc(secondary) sep enc(primary) tail", c.posStr(fn.Pos()), "layout is appendEncode(secondary), separator, appendEncode(primary), a fixed-size tail", "composite key layout broken: "+why)
	tailLen := int64(-1)
	if good {
		// what follows enc(primary) takes part in the comparison whenever one primary key is a proper
		// prefix of another: it must be constant and below the first byte of every code word
		tail := parts[3]
		switch tail.kind {
		case "bytes":
			tailLen = int64(len(tail.bytes))
			ok := len(tail.bytes) > 0 && tail.bytes[0] < minFirst
			r.check(ok, name+"|primary is terminated below every code word", c.posStr(fn.Pos()), fmt.Sprintf("the tail % x starts below the smallest first byte of a code word (0x%02x): a primary key sorts before its extensions", tail.bytes, minFirst), fmt.Sprintf("the constant tail % x after enc(primary) does not start below every code word (smallest first byte 0x%02x): a primary key that is a prefix of another one can sort after it", tail.bytes, minFirst))
		case "len16":
			tailLen = 2
			r.bad(name+"|primary is terminated below every code word", c.posStr(fn.Pos()), "enc(primary) is followed by the 16-bit length of the primary: when one primary key is a proper prefix of another the length bytes are compared with the continuation of the longer key, and from a length of 258 on (high byte 0x01, not below every code word) the shorter key sorts after the longer one; the length also wraps at 64 KiB")
		default:
			r.undecided(name+"|primary is terminated below every code word", c.posStr(fn.Pos()), "unrecognised tail after enc(primary)")
		}
	}
	// accessors agree with the layout: 1 separator byte + tail
	if tailLen > 0 {
		total := 1 + tailLen
		if f := c.Func("statedb", "nonUniqueKey", "primaryLen"); f != nil {
			// len(k) - secondaryLen() - (1+tail), or the stored length for a len16 tail
			ok := false
			usesSec := false
			for _, ia := range allInstrs(f) {
				if call, ok := ia.In.(*ssa.Call); ok {
					if sf := staticCallee(call); sf != nil && sf.Name() == "secondaryLen" {
						usesSec = true
					}
				}
			}
			cs := intConsts(f)
			if usesSec {
				ok = true
				for _, k := range cs {
					if k != 0 && k != total {
						ok = false
					}
				}
			} else {
				// reads the trailer
				ok = true
				for _, k := range cs {
					if k != 0 && k != total && k != tailLen {
						ok = false
					}
				}
			}
			r.check(ok, "statedb.(nonUniqueKey).primaryLen|offsets", c.posStr(f.Pos()), fmt.Sprintf("uses only the layout's offsets (separator+tail = %d)", total), fmt.Sprintf("the accessor's constants %v differ from the key layout (1 separator byte + %d tail bytes): the composite key is split at the wrong place", cs, tailLen))
		} else {
			r.anchorMissing("statedb.(nonUniqueKey).primaryLen")
		}
		if f := c.Func("statedb", "nonUniqueKey", "secondaryLen"); f != nil {
			ok := false
			// first occurrence of the separator, or len(k) - primaryLen() - (1+tail)
			for _, ia := range allInstrs(f) {
				if call, ok2 := ia.In.(*ssa.Call); ok2 {
					if c.calleeName(call) == "bytes.IndexByte" {
						if k, ok3 := constInt(call.Call.Args[1]); ok3 && k == sep {
							ok = true
						}
					}
					if sf := staticCallee(call); sf != nil && sf.Name() == "primaryLen" {
						ok = true
						for _, k := range intConsts(f) {
							if k != 0 && k != total {
								ok = false
							}
						}
					}
				}
			}
			r.check(ok, "statedb.(nonUniqueKey).secondaryLen|offsets", c.posStr(f.Pos()), "the secondary part ends at the first separator byte (the escaped secondary contains none) or at len - primaryLen - separator - tail", "secondaryLen does not locate the separator consistently with the key layout")
		} else {
			r.anchorMissing("statedb.(nonUniqueKey).secondaryLen")
		}
		if f := c.Func("statedb", "nonUniqueKey", "encodedPrimary"); f != nil {
			ok := true
			n := 0
			for _, k := range intConsts(f) {
				if k == 0 {
					continue
				}
				n++
				if k != tailLen {
					ok = false
				}
			}
			r.check(ok && n >= 1, "statedb.(nonUniqueKey).encodedPrimary|offsets", c.posStr(f.Pos()), fmt.Sprintf("the primary part ends %d bytes before the end of the key", tailLen), fmt.Sprintf("encodedPrimary's offsets differ from the tail length %d", tailLen))
		} else {
			r.anchorMissing("statedb.(nonUniqueKey).encodedPrimary")
		}
	}
	if f := c.Func("statedb", "nonUniqueKey", "encodedSecondary"); f != nil {
		good := false
		for _, ia := range allInstrs(f) {
			if sl, ok := ia.In.(*ssa.Slice); ok && sl.Low == nil {
				if call, ok := sl.High.(*ssa.Call); ok {
					if sf := staticCallee(call); sf != nil && sf.Name() == "secondaryLen" {
						good = true
					}
				}
			}
		}
		r.check(good, "statedb.(nonUniqueKey).encodedSecondary|k[:secondaryLen()]", c.posStr(f.Pos()), "encodedSecondary is k[:secondaryLen()]", "encodedSecondary is not k[:secondaryLen()]")
	}
}

func ruleEncEndian(c *Ctx, r *Reporter) {
	n := 0
	for _, fn := range c.Funcs {
		for _, ia := range allInstrs(fn) {
			call, ok := ia.In.(ssa.CallInstruction)
			if !ok {
				continue
			}
			name := c.calleeName(call)
			if !strings.HasPrefix(name, "encoding/binary.(") {
				continue
			}
			n++
			key := fmt.Sprintf("%s|%s", c.fnName(fn), strings.TrimPrefix(name, "encoding/binary."))
			if strings.Contains(name, "(bigEndian)") {
				r.ok(key, c.posStr(instrPos(call)), "big-endian")
			} else {
				r.bad(key, c.posStr(instrPos(call)), "a key/revision encoder uses a byte order other than big-endian: bytewise key order no longer equals numeric order, and encoder/decoder pairs elsewhere assume big-endian")
			}
		}
	}
	if n == 0 {
		r.anchorMissing("encoding/binary calls")
	}
	// the functions that define the key formats must use encoding/binary (no hand-rolled byte order)
	for _, name := range []string{"index.Uint16", "index.Uint32", "index.Uint64", "lpm.EncodeLPMKey", "lpm.DecodeLPMKey"} {
		fn := c.fnByName(name)
		if fn == nil {
			r.anchorMissing(name)
			continue
		}
		has := false
		for _, ia := range allInstrs(fn) {
			if call, ok := ia.In.(ssa.CallInstruction); ok && strings.HasPrefix(c.calleeName(call), "encoding/binary.(bigEndian)") {
				has = true
			}
		}
		r.check(has, name+"|uses binary.BigEndian", c.posStr(fn.Pos()), "fixed-width integers go through binary.BigEndian", "a key codec no longer uses binary.BigEndian for its fixed-width integer (hand-rolled shifts): width and byte order are no longer guaranteed to match the other side")
	}
	// byte shifted by >= 8 before widening is always zero
	for _, fn := range c.Funcs {
		if fn.Package() == nil {
			continue
		}
		pk := shortPkg(fn.Package().Pkg.Path())
		if pk != "lpm" && pk != "index" && pk != "statedb" && pk != "part" {
			continue
		}
		for _, ia := range allInstrs(fn) {
			bo, ok := ia.In.(*ssa.BinOp)
			if !ok || bo.Op != token.SHL {
				continue
			}
			bt, ok := bo.X.Type().Underlying().(*types.Basic)
			if !ok || (bt.Kind() != types.Uint8 && bt.Kind() != types.Int8) {
				continue
			}
			if k, ok := constInt(bo.Y); ok && k >= 8 {
				r.bad(c.fnName(fn)+"|8-bit value shifted out", c.posStr(instrPos(bo)), "an 8-bit value is shifted left by 8 or more before being widened: the result is always zero (the high byte of the encoded integer is lost)")
			}
		}
	}
}

func ruleEncNarrow(c *Ctx, r *Reporter) {
	n := 0
	for _, fn := range c.Funcs {
		if fn.Parent() != nil || fn.Package() == nil || shortPkg(fn.Package().Pkg.Path()) != "index" {
			continue
		}
		if fn.Signature.Results().Len() == 0 || namedTypeName(fn.Signature.Results().At(0).Type()) != "Key" {
			continue
		}
		for _, p := range fn.Params {
			bt, ok := p.Type().Underlying().(*types.Basic)
			if !ok || bt.Info()&types.IsInteger == 0 {
				continue
			}
			n++
			key := fmt.Sprintf("%s|parameter %s", c.fnName(fn), p.Name())
			narrowed := ""
			if refs := p.Referrers(); refs != nil {
				for _, ref := range *refs {
					if cv, ok := ref.(*ssa.Convert); ok {
						tt, ok := cv.Type().Underlying().(*types.Basic)
						if ok && tt.Info()&types.IsInteger != 0 && c.Sizes.Sizeof(tt) < c.Sizes.Sizeof(bt) {
							narrowed = fmt.Sprintf("%s (%d bytes) converted to %s (%d bytes)", bt.Name(), c.Sizes.Sizeof(bt), tt.Name(), c.Sizes.Sizeof(tt))
						}
					}
				}
			}
			if narrowed == "" {
				r.ok(key, c.posStr(fn.Pos()), "the integer parameter is encoded at full width")
			} else {
				r.bad(key, c.posStr(fn.Pos()), "the encoder narrows its parameter: "+narrowed+" - different values give equal keys")
			}
		}
	}
	if n < 6 {
		r.undecided("encoders", "-", fmt.Sprintf("expected at least 6 integer encoders in package index, found %d", n))
	}
}

// isReturnedInt: phi is an int accumulator that the function returns.
func isReturnedInt(fn *ssa.Function, phi *ssa.Phi) bool {
	bt, ok := phi.Type().Underlying().(*types.Basic)
	if !ok || bt.Kind() != types.Int {
		return false
	}
	for _, ret := range returnsOf(fn) {
		for _, r := range ret.Results {
			if r == ssa.Value(phi) {
				return true
			}
		}
	}
	return false
}
