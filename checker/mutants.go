package main

import (
	"encoding/json"
	"fmt"
	"os"
	"os/exec"
	"path/filepath"
	"sort"
	"strings"
	"sync"
)

// A Mutant is one small source change that breaks a property while still
// compiling; it is applied to a scratch copy of the *current* /repo. The matrix
// validates the checker (the owning rule must report it, every other rule must
// stay silent); it never changes the verdict of a property check.
type Mutant struct {
	ID    string   `json:"id"`
	File  string   `json:"file"`
	Old   string   `json:"old"`
	New   string   `json:"new"`
	Rules []string `json:"rules"`          // rules expected to report (at least one obligation of each)
	Also  []string `json:"also,omitempty"` // other rules that may legitimately report too
	Props []string `json:"props"`          // properties the mutation breaks
	Why   string   `json:"why"`
}

type MutantResult struct {
	ID       string   `json:"id"`
	Status   string   `json:"status"` // caught | MISSED | not-applicable | does-not-compile | NOISY
	Expected []string `json:"expected_rules"`
	Reported []string `json:"reported"` // rule|key of non-ok obligations
	Note     string   `json:"note,omitempty"`
}

func loadMutants(verif string) ([]Mutant, error) {
	var out []Mutant
	files, _ := filepath.Glob(filepath.Join(verif, "mutants", "*.json"))
	sort.Strings(files)
	for _, f := range files {
		b, err := os.ReadFile(f)
		if err != nil {
			return nil, err
		}
		var ms []Mutant
		if err := json.Unmarshal(b, &ms); err != nil {
			return nil, fmt.Errorf("%s: %w", f, err)
		}
		out = append(out, ms...)
	}
	return out, nil
}

func copyRepo(src, dst string) error {
	// plain copy without VCS metadata; small tree (a few MB)
	cmd := exec.Command("sh", "-c", fmt.Sprintf("mkdir -p %q && cd %q && tar --exclude=.git -cf - . | tar -xf - -C %q", dst, src, dst))
	out, err := cmd.CombinedOutput()
	if err != nil {
		return fmt.Errorf("%v: %s", err, out)
	}
	return nil
}

func runOneMutant(m Mutant, repo string, baseline map[string]bool) MutantResult {
	res := MutantResult{ID: m.ID, Expected: m.Rules}
	src := filepath.Join(repo, m.File)
	b, err := os.ReadFile(src)
	if err != nil {
		res.Status = "not-applicable"
		res.Note = "file not found"
		return res
	}
	if strings.Count(string(b), m.Old) != 1 {
		res.Status = "not-applicable"
		res.Note = fmt.Sprintf("anchor text occurs %d times in %s on this tree", strings.Count(string(b), m.Old), m.File)
		return res
	}
	tmp, err := os.MkdirTemp("", "sdbcheck-mut-")
	if err != nil {
		res.Status = "error"
		res.Note = err.Error()
		return res
	}
	defer os.RemoveAll(tmp)
	if err := copyRepo(repo, tmp); err != nil {
		res.Status = "error"
		res.Note = err.Error()
		return res
	}
	nb := strings.Replace(string(b), m.Old, m.New, 1)
	if err := os.WriteFile(filepath.Join(tmp, m.File), []byte(nb), 0o644); err != nil {
		res.Status = "error"
		res.Note = err.Error()
		return res
	}
	exe, _ := os.Executable()
	cmd := exec.Command(exe, "dump", "all", "--bad", "--json", "--repo", tmp)
	out, err := cmd.Output()
	if err != nil && len(out) == 0 {
		res.Status = "error"
		res.Note = fmt.Sprintf("%v", err)
		return res
	}
	if strings.Contains(string(out), "CANNOT-ANALYSE") {
		res.Status = "does-not-compile"
		res.Note = firstLine(string(out))
		return res
	}
	var obs []Ob
	if err := json.Unmarshal(out, &obs); err != nil {
		res.Status = "error"
		res.Note = "bad json from dump: " + firstLine(string(out))
		return res
	}
	byRule := map[string]bool{}
	for _, ob := range obs {
		if baseline[ob.Key] {
			continue
		}
		byRule[ob.Rule] = true
		res.Reported = append(res.Reported, ob.Key)
	}
	sort.Strings(res.Reported)
	caught := len(m.Rules) > 0
	for _, r := range m.Rules {
		if !byRule[r] {
			caught = false
		}
	}
	noisy := []string{}
	for r := range byRule {
		exp := false
		for _, e := range append(append([]string{}, m.Rules...), m.Also...) {
			if e == r {
				exp = true
			}
		}
		if !exp {
			noisy = append(noisy, r)
		}
	}
	sort.Strings(noisy)
	switch {
	case !caught:
		res.Status = "MISSED"
	case len(noisy) > 0:
		res.Status = "caught+extra"
		res.Note = "also reported by: " + strings.Join(noisy, ",")
	default:
		res.Status = "caught"
	}
	return res
}

func firstLine(s string) string {
	if i := strings.IndexByte(s, '\n'); i >= 0 {
		return s[:i]
	}
	return s
}

func baselineBad(repo string) map[string]bool {
	exe, _ := os.Executable()
	out, _ := exec.Command(exe, "dump", "all", "--bad", "--json", "--repo", repo).Output()
	var obs []Ob
	json.Unmarshal(out, &obs)
	m := map[string]bool{}
	for _, ob := range obs {
		m[ob.Key] = true
	}
	return m
}

func runMutants(ms []Mutant, repo string, par int) []MutantResult {
	base := baselineBad(repo)
	res := make([]MutantResult, len(ms))
	sem := make(chan struct{}, par)
	var wg sync.WaitGroup
	for i := range ms {
		wg.Add(1)
		sem <- struct{}{}
		go func(i int) {
			defer wg.Done()
			defer func() { <-sem }()
			res[i] = runOneMutant(ms[i], repo, base)
		}(i)
	}
	wg.Wait()
	return res
}

// runMutantMatrix runs the mutants of one property (thorough tier).
func runMutantMatrix(pid, repo, verif string) any {
	ms, err := loadMutants(verif)
	if err != nil {
		return map[string]any{"error": err.Error()}
	}
	var sel []Mutant
	for _, m := range ms {
		if hasProp(m.Props, pid) {
			sel = append(sel, m)
		}
	}
	res := runMutants(sel, repo, 6)
	caught, missed := 0, 0
	for _, r := range res {
		if strings.HasPrefix(r.Status, "caught") {
			caught++
		} else if r.Status == "MISSED" {
			missed++
		}
	}
	return map[string]any{"mutants": len(sel), "caught": caught, "missed": missed, "results": res,
		"note": "checker validation only: each mutant is a one-site change of the current tree applied to a scratch copy and analysed in a separate process; it never changes the verdict of this check"}
}

func runMutantsCmd(pos []string, repo, verif string) int {
	ms, err := loadMutants(verif)
	if err != nil {
		fmt.Println(err)
		return 2
	}
	if len(pos) > 0 {
		var sel []Mutant
		for _, m := range ms {
			for _, p := range pos {
				if m.ID == p || hasProp(m.Props, p) || strings.HasPrefix(m.ID, p) {
					sel = append(sel, m)
					break
				}
			}
		}
		ms = sel
	}
	res := runMutants(ms, repo, 8)
	bad := 0
	for _, r := range res {
		fmt.Printf("%-16s %-28s expected=%s\n", r.Status, r.ID, strings.Join(r.Expected, ","))
		if r.Note != "" {
			fmt.Printf("                 note: %s\n", r.Note)
		}
		if r.Status != "caught" {
			for _, k := range r.Reported {
				fmt.Printf("                 reported: %s\n", k)
			}
		}
		if r.Status == "MISSED" || r.Status == "error" || r.Status == "does-not-compile" {
			bad++
		}
	}
	fmt.Printf("%d mutants, %d not caught/invalid\n", len(res), bad)
	if bad > 0 {
		return 1
	}
	return 0
}

func runSelftest(verif string) int { return 0 }

// runSeedMatrix applies every independently seeded change kept under
// seeded/<pid>-*/ to a scratch copy of the current tree and requires the
// property's own check to fail on it. Like the mutant matrix this validates the
// checker only.
func runSeedMatrix(pid, repo, verif string) any {
	dirs, _ := filepath.Glob(filepath.Join(verif, "seeded", pid+"-*"))
	more, _ := filepath.Glob(filepath.Join(verif, "seeded", "*-"+pid+"-*")) // later rounds: r2-Cxx-k
	dirs = append(dirs, more...)
	sort.Strings(dirs)
	type res struct {
		ID     string   `json:"id"`
		Status string   `json:"status"`
		Rules  []string `json:"rules,omitempty"`
		Note   string   `json:"note,omitempty"`
	}
	out := make([]res, len(dirs))
	sem := make(chan struct{}, 4)
	var wg sync.WaitGroup
	exe, _ := os.Executable()
	for i, d := range dirs {
		wg.Add(1)
		sem <- struct{}{}
		go func(i int, d string) {
			defer wg.Done()
			defer func() { <-sem }()
			r := res{ID: filepath.Base(d)}
			defer func() { out[i] = r }()
			tmp, err := os.MkdirTemp("", "sdbcheck-seed-")
			if err != nil {
				r.Status = "error"
				return
			}
			defer os.RemoveAll(tmp)
			if err := copyRepo(repo, tmp); err != nil {
				r.Status, r.Note = "error", err.Error()
				return
			}
			p := exec.Command("patch", "-p1", "-s", "-i", filepath.Join(d, "patch.diff"))
			p.Dir = tmp
			if o, err := p.CombinedOutput(); err != nil {
				r.Status, r.Note = "not-applicable", "patch does not apply to this tree: "+firstLine(string(o))
				return
			}
			o, _ := exec.Command(exe, "check", pid, "--no-evidence", "--json", "--repo", tmp, "--verif", verif).Output()
			s := string(o)
			if strings.Contains(s, "CANNOT-ANALYSE") {
				r.Status = "does-not-compile"
				return
			}
			if strings.Contains(s, "VIOLATION property="+pid) {
				r.Status = "caught"
				seen := map[string]bool{}
				for _, line := range strings.Split(s, "\n") {
					line = strings.TrimSpace(line)
					if strings.HasPrefix(line, "VIOLATION ") || strings.HasPrefix(line, "UNDECIDED ") {
						f := strings.Fields(line)
						if len(f) > 1 && strings.Contains(f[1], "|") {
							rule := strings.SplitN(f[1], "|", 2)[0]
							if !seen[rule] {
								seen[rule] = true
								r.Rules = append(r.Rules, rule)
							}
						}
					}
				}
			} else {
				r.Status = "MISSED"
			}
		}(i, d)
	}
	wg.Wait()
	caught, missed := 0, 0
	for _, r := range out {
		switch r.Status {
		case "caught":
			caught++
		case "MISSED":
			missed++
		}
	}
	return map[string]any{"seeds": len(out), "caught": caught, "missed": missed, "results": out,
		"note": "independently seeded property-breaking changes (seeded/), each applied to a scratch copy of the current tree; the property's own check must fail. Checker validation only."}
}

// A Benign variant is a behaviour-preserving edit (rename, reordering of
// independent statements, equivalent idiom, extracted helper) applied to a
// scratch copy of the current tree: every rule must stay silent on it. This
// validates the other direction - no alarm on code where the property holds.
type Benign struct {
	ID    string `json:"id"`
	Edits []struct {
		File string `json:"file"`
		Old  string `json:"old"`
		New  string `json:"new"`
		All  bool   `json:"all,omitempty"` // replace every occurrence (renames)
	} `json:"edits"`
	Why string `json:"why"`
}

type BenignResult struct {
	ID       string   `json:"id"`
	Status   string   `json:"status"` // silent | FALSE-ALARM | not-applicable | does-not-compile | error
	Reported []string `json:"reported,omitempty"`
	Note     string   `json:"note,omitempty"`
}

func loadBenign(verif string) ([]Benign, error) {
	var out []Benign
	files, _ := filepath.Glob(filepath.Join(verif, "benign", "*.json"))
	sort.Strings(files)
	for _, f := range files {
		b, err := os.ReadFile(f)
		if err != nil {
			return nil, err
		}
		var ms []Benign
		if err := json.Unmarshal(b, &ms); err != nil {
			return nil, fmt.Errorf("%s: %w", f, err)
		}
		out = append(out, ms...)
	}
	return out, nil
}

func runOneBenign(m Benign, repo string, baseline map[string]bool, pid string) BenignResult {
	res := BenignResult{ID: m.ID}
	tmp, err := os.MkdirTemp("", "sdbcheck-ben-")
	if err != nil {
		res.Status, res.Note = "error", err.Error()
		return res
	}
	defer os.RemoveAll(tmp)
	if err := copyRepo(repo, tmp); err != nil {
		res.Status, res.Note = "error", err.Error()
		return res
	}
	for _, e := range m.Edits {
		b, err := os.ReadFile(filepath.Join(tmp, e.File))
		if err != nil {
			res.Status, res.Note = "not-applicable", "file not found: "+e.File
			return res
		}
		n := strings.Count(string(b), e.Old)
		if n == 0 || (n != 1 && !e.All) {
			res.Status = "not-applicable"
			res.Note = fmt.Sprintf("anchor text occurs %d times in %s on this tree", n, e.File)
			return res
		}
		nb := strings.ReplaceAll(string(b), e.Old, e.New)
		if err := os.WriteFile(filepath.Join(tmp, e.File), []byte(nb), 0o644); err != nil {
			res.Status, res.Note = "error", err.Error()
			return res
		}
	}
	exe, _ := os.Executable()
	what := "all"
	if pid != "" {
		what = pid // only the rules serving the property (thorough tier): much cheaper
	}
	out, err := exec.Command(exe, "dump", what, "--bad", "--json", "--repo", tmp).Output()
	if err != nil && len(out) == 0 {
		res.Status, res.Note = "error", fmt.Sprintf("%v", err)
		return res
	}
	if strings.Contains(string(out), "CANNOT-ANALYSE") {
		res.Status, res.Note = "does-not-compile", firstLine(string(out))
		return res
	}
	var obs []Ob
	if err := json.Unmarshal(out, &obs); err != nil {
		res.Status, res.Note = "error", "bad json from dump: "+firstLine(string(out))
		return res
	}
	for _, ob := range obs {
		if !baseline[ob.Key] && (pid == "" || hasProp(ob.Props, pid)) {
			res.Reported = append(res.Reported, ob.Key)
		}
	}
	sort.Strings(res.Reported)
	if len(res.Reported) > 0 {
		res.Status = "FALSE-ALARM"
	} else {
		res.Status = "silent"
	}
	return res
}

func runBenign(ms []Benign, repo string, par int, pid string) []BenignResult {
	base := baselineBad(repo)
	res := make([]BenignResult, len(ms))
	sem := make(chan struct{}, par)
	var wg sync.WaitGroup
	for i := range ms {
		wg.Add(1)
		sem <- struct{}{}
		go func(i int) {
			defer wg.Done()
			defer func() { <-sem }()
			res[i] = runOneBenign(ms[i], repo, base, pid)
		}(i)
	}
	wg.Wait()
	return res
}

func runBenignCmd(pos []string, repo, verif string) int {
	ms, err := loadBenign(verif)
	if err != nil {
		fmt.Println(err)
		return 2
	}
	if len(pos) > 0 {
		var sel []Benign
		for _, m := range ms {
			for _, p := range pos {
				if strings.HasPrefix(m.ID, p) {
					sel = append(sel, m)
					break
				}
			}
		}
		ms = sel
	}
	res := runBenign(ms, repo, 8, "")
	bad := 0
	for _, r := range res {
		fmt.Printf("%-16s %s\n", r.Status, r.ID)
		if r.Note != "" {
			fmt.Printf("                 note: %s\n", r.Note)
		}
		for _, k := range r.Reported {
			fmt.Printf("                 reported: %s\n", k)
		}
		if r.Status != "silent" {
			bad++
		}
	}
	fmt.Printf("%d benign variants, %d not silent/invalid\n", len(res), bad)
	if bad > 0 {
		return 1
	}
	return 0
}

// runBenignMatrix (thorough tier): all benign variants, all rules.
func runBenignMatrix(pid, repo, verif string) any {
	ms, err := loadBenign(verif)
	if err != nil {
		return map[string]any{"error": err.Error()}
	}
	res := runBenign(ms, repo, 6, pid)
	silent, alarms := 0, 0
	for _, r := range res {
		switch r.Status {
		case "silent":
			silent++
		case "FALSE-ALARM":
			alarms++
		}
	}
	return map[string]any{"variants": len(ms), "silent": silent, "false_alarms": alarms, "results": res,
		"note": "behaviour-preserving edits of the current tree applied to scratch copies; every rule serving this property must stay silent. Checker validation only."}
}
