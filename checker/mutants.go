package main

// placeholder: filled in by the mutant matrix (see mutants_impl.go)
func runMutantMatrix(pid, repo, verif string) any { return nil }
func runMutantsCmd(pos []string, repo, verif string) int { return 0 }
func runSelftest(verif string) int { return 0 }
