package main

import (
	"fmt"
	"go/token"
	"go/types"
	"sort"
	"strings"

	"golang.org/x/tools/go/ssa"
)

func init() {
	register(&Rule{
		ID: "GUARD-ERRORS", Props: []string{"C03", "C05"}, Floor: 10,
		Doc: "in writeTxnState.modify/delete/addDeleteTracker the nil-transaction test returning ErrTransactionClosed is the first thing executed, the `locked` test returning ErrTableNotLockedForWriting dominates every index mutation and every revision store, and every table write method goes through them",
		Run: ruleGuardErrors,
	})
	register(&Rule{
		ID: "REVERT", Props: []string{"C03", "C09", "C04", "C07", "C08", "C06"}, Default: []string{"C03", "C09", "C04", "C07", "C08"}, Floor: 8,
		Doc: "path accounting in writeTxnState.modify/delete: on every path to an error return the revision counter is back at the value loaded before the increment, the primary index mutation is compensated and no other index was touched; every successful write increments the revision exactly once, the no-op delete not at all; the stored object carries the post-increment revision; the rejection test is an exact inequality on the guard revision",
		Run: ruleRevert,
	})
	register(&Rule{
		ID: "INDEX-FAMILIES", Props: []string{"C03", "C04", "C08"}, Floor: 10,
		Doc: "every successful modify/delete updates the revision index and runs reindex over all secondary indexers; deletes go to both graveyard indexes, with the deletion's revision, exactly under the transaction's own delete-tracker test; an insert of a new key cleans both graveyard indexes; the collector removes from the graveyard only what its deletion-revision delete confirmed",
		Run: ruleIndexFamilies,
	})
	register(&Rule{
		ID: "MERGE-WRAPPER", Props: []string{"C09", "C03"}, Floor: 1,
		Doc: "the merge adapter genTable.Modify passes to the transaction returns the *new* internal object (carrying the newly assigned revision) with only its data replaced",
		Run: ruleMergeWrapper,
	})
}

// ---- helpers ----

type idxCall struct {
	call   *ssa.Call
	method string // insert | modify | delete | reindex | get | ...
	pos    int64  // index position constant, -1 if not constant (secondary), -2 unknown
	write  bool   // obtained through mustIndexWriteTxn / indexWriteTxn
}

const (
	posRevision     = 0
	posGraveyard    = 1
	posGraveyardRev = 2
	posPrimary      = 3
)

// indexCalls finds invokes on index transactions obtained from
// mustIndexWriteTxn/mustIndexReadTxn(txn, meta, pos).
func indexCalls(c *Ctx, fn *ssa.Function) []idxCall {
	var out []idxCall
	for _, ia := range allInstrs(fn) {
		call, ok := ia.In.(*ssa.Call)
		if !ok || !call.Call.IsInvoke() {
			continue
		}
		recv := call.Call.Value
		src, ok := recv.(*ssa.Call)
		if !ok {
			continue
		}
		f := staticCallee(src)
		if f == nil {
			continue
		}
		switch f.Name() {
		case "mustIndexWriteTxn", "mustIndexReadTxn":
		default:
			continue
		}
		ic := idxCall{call: call, method: call.Call.Method.Name(), pos: -2, write: f.Name() == "mustIndexWriteTxn"}
		if len(src.Call.Args) == 3 {
			if k, ok := constInt(src.Call.Args[2]); ok {
				ic.pos = k
			} else {
				ic.pos = -1
			}
		}
		out = append(out, ic)
	}
	return out
}

func isMutation(m string) bool {
	return m == "insert" || m == "modify" || m == "delete" || m == "reindex"
}

// entryOf finds the *tableEntry value of modify/delete: txn.tableEntries[meta.tablePos()].
func entryOf(fn *ssa.Function) ssa.Value {
	for _, ia := range allInstrs(fn) {
		u, ok := ia.In.(*ssa.UnOp)
		if !ok || namedTypeName(u.Type()) != "tableEntry" {
			continue
		}
		if addr, ok := isLoad(u); ok {
			if ix, ok := addr.(*ssa.IndexAddr); ok {
				if _, ok := loadOfField(ix.X, "writeTxnState", "tableEntries"); ok {
					return u
				}
			}
		}
	}
	return nil
}

func errGlobalOf(v ssa.Value) string {
	// *ErrX or tableError(name, *ErrX)
	if addr, ok := isLoad(v); ok {
		if g, ok := addr.(*ssa.Global); ok {
			return g.Name()
		}
	}
	if call, ok := v.(*ssa.Call); ok {
		if f := staticCallee(call); f != nil && f.Name() == "tableError" && len(call.Call.Args) == 2 {
			return errGlobalOf(call.Call.Args[1])
		}
	}
	return ""
}

// isHoldsTest: v is `tablePos() < len(<txn>.tableEntries)` (or the mirrored form), inline or as the
// single result of a helper.
func isHoldsTest(c *Ctx, v ssa.Value, depth int) bool {
	switch x := v.(type) {
	case *ssa.BinOp:
		l, rr := x.X, x.Y
		if x.Op == token.GTR {
			l, rr = rr, l
		} else if x.Op != token.LSS {
			return false
		}
		lc, ok := l.(*ssa.Call)
		if !ok || !lc.Call.IsInvoke() || lc.Call.Method.Name() != "tablePos" {
			return false
		}
		rc, ok := rr.(*ssa.Call)
		if !ok {
			return false
		}
		if b, ok := rc.Call.Value.(*ssa.Builtin); !ok || b.Name() != "len" {
			return false
		}
		_, ok = loadOfField(rc.Call.Args[0], "writeTxnState", "tableEntries")
		return ok
	case *ssa.Call:
		if depth > 1 {
			return false
		}
		if f := staticCallee(x); f != nil {
			rets := returnsOf(f)
			if len(rets) == 1 && len(rets[0].Results) == 1 {
				return isHoldsTest(c, rets[0].Results[0], depth+1)
			}
		}
	}
	return false
}

func ruleGuardErrors(c *Ctx, r *Reporter) {
	// a table registered after WriteTxn() has no entry in the transaction: the position is
	// compared with len(txn.tableEntries) before it is used as an index, and the not-held case
	// returns ErrTableNotLockedForWriting
	for _, name := range []string{"modify", "delete", "addDeleteTracker", "indexWriteTxn"} {
		fn := c.Func("statedb", "writeTxnState", name)
		if fn == nil {
			r.anchorMissing("statedb.(writeTxnState)." + name)
			continue
		}
		e := entryOf(fn)
		if e == nil {
			r.anchorMissing(c.fnName(fn) + ": table entry lookup")
			continue
		}
		bounded, okErr := false, false
		for _, f := range factsAt(e.(*ssa.UnOp).Block()) {
			cond, val := stripNot(f.Cond, f.Val)
			if val && isHoldsTest(c, cond, 0) {
				bounded = true
				// the other edge returns the documented error
				for _, ia := range allInstrs(fn) {
					iff, ok := ia.In.(*ssa.If)
					if !ok || iff.Cond != f.Cond {
						continue
					}
					other := iff.Block().Succs[1]
					if !f.Val {
						other = iff.Block().Succs[0]
					}
					if ret, ok := other.Instrs[len(other.Instrs)-1].(*ssa.Return); ok {
						if errGlobalOf(ret.Results[len(ret.Results)-1]) == "ErrTableNotLockedForWriting" {
							okErr = true
						}
					}
				}
			}
		}
		r.check(bounded && okErr, c.fnName(fn)+"|table not part of the transaction", c.posStr(instrPos(e.(*ssa.UnOp))), "tablePos() < len(txn.tableEntries) is established before indexing; otherwise ErrTableNotLockedForWriting", "txn.tableEntries is indexed with the table's position without comparing it with the length: a write to a table registered after WriteTxn() panics (index out of range) instead of returning ErrTableNotLockedForWriting")
	}
	// DeleteAll reads the table (All) before the per-object deletes make their checks: it makes the
	// same three checks itself first, so that a finished transaction, a table that is not part of the
	// transaction and an empty table it does not hold are answered with the documented errors
	if fn := c.Func("statedb", "genTable", "DeleteAll"); fn != nil {
		var read ssa.Instruction
		for _, ia := range allInstrs(fn) {
			if call, ok := ia.In.(*ssa.Call); ok {
				if sf := staticCallee(call); sf != nil && (sf.Name() == "All" || sf.Name() == "getTableEntry") && read == nil {
					read = call
				}
				if call.Call.IsInvoke() && (call.Call.Method.Name() == "All" || call.Call.Method.Name() == "getTableEntry" || call.Call.Method.Name() == "root") && read == nil {
					read = call
				}
			}
		}
		open, held, locked := false, false, false
		if read != nil {
			for _, f := range factsAt(read.Block()) {
				cond, val := stripNot(f.Cond, f.Val)
				if bo, ok := cond.(*ssa.BinOp); ok && isNilConst(bo.Y) && namedTypeName(bo.X.Type()) == "writeTxnState" {
					if (bo.Op == token.NEQ && val) || (bo.Op == token.EQL && !val) {
						open = true
					}
				}
				if val && isHoldsTest(c, cond, 0) {
					held = true
				}
				if _, ok := loadOfField(cond, "tableEntry", "locked"); ok && val {
					locked = true
				}
			}
		}
		errs := map[string]bool{}
		for _, ret := range returnsOf(fn) {
			vals := retValues(ret) // results are spilled: the range-over-func body assigns them
			errs[errGlobalOf(vals[len(vals)-1])] = true
		}
		pos := c.posStr(fn.Pos())
		if read != nil {
			pos = c.posStr(instrPos(read))
		}
		r.check(read != nil && open && held && locked && errs["ErrTransactionClosed"] && errs["ErrTableNotLockedForWriting"], "statedb.(genTable).DeleteAll|checks the transaction before reading through it", pos, "finished transaction, table not part of it and table not locked are rejected before All()", "DeleteAll reads the table through the transaction before checking it: a finished transaction panics (nil dereference) instead of ErrTransactionClosed, a table registered after WriteTxn() panics (index out of range), and an empty table the transaction does not hold returns nil instead of ErrTableNotLockedForWriting")
	} else {
		r.anchorMissing("statedb.(genTable).DeleteAll")
	}
	for _, name := range []string{"modify", "delete", "addDeleteTracker"} {
		fn := c.Func("statedb", "writeTxnState", name)
		if fn == nil {
			r.anchorMissing("statedb.(writeTxnState)." + name)
			continue
		}
		fnn := c.fnName(fn)
		// (a) first block: if txn == nil return ErrTransactionClosed
		okNil := false
		b0 := fn.Blocks[0]
		if iff, ok := b0.Instrs[len(b0.Instrs)-1].(*ssa.If); ok {
			if bo, ok := iff.Cond.(*ssa.BinOp); ok && bo.Op == token.EQL && bo.X == ssa.Value(fn.Params[0]) && isNilConst(bo.Y) {
				// no dereference of txn before
				clean := true
				for _, in := range b0.Instrs {
					if fa, ok := in.(*ssa.FieldAddr); ok && fa.X == ssa.Value(fn.Params[0]) {
						clean = false
					}
				}
				t := b0.Succs[0]
				if ret, ok := t.Instrs[len(t.Instrs)-1].(*ssa.Return); ok && clean {
					if errGlobalOf(ret.Results[len(ret.Results)-1]) == "ErrTransactionClosed" {
						okNil = true
					}
				}
			}
		}
		r.check(okNil, fnn+"|closed transaction guard", c.posStr(fn.Pos()),
			"the first thing the function does is `txn == nil` -> return ErrTransactionClosed",
			"a write through a finished transaction is not rejected up front with ErrTransactionClosed (nil dereference or writes before the check)")
		// (b) locked guard
		e := entryOf(fn)
		if e == nil {
			r.anchorMissing(fnn + ": table entry lookup")
			continue
		}
		var lockedIf *ssa.If
		for _, ia := range allInstrs(fn) {
			if iff, ok := ia.In.(*ssa.If); ok {
				cond, _ := stripNot(iff.Cond, true)
				if x, ok := loadOfField(cond, "tableEntry", "locked"); ok && x == e {
					lockedIf = iff
				}
			}
		}
		if lockedIf == nil {
			r.bad(fnn+"|unlocked table guard", c.posStr(fn.Pos()), "no test of the entry's `locked` flag: a write to a table the transaction does not hold is not rejected (and would modify the committed entry)")
			continue
		}
		cond, val := stripNot(lockedIf.Cond, true)
		_ = cond
		unlockedSucc := lockedIf.Block().Succs[1]
		if !val {
			unlockedSucc = lockedIf.Block().Succs[0]
		}
		okErr := false
		if ret, ok := unlockedSucc.Instrs[len(unlockedSucc.Instrs)-1].(*ssa.Return); ok {
			if errGlobalOf(ret.Results[len(ret.Results)-1]) == "ErrTableNotLockedForWriting" {
				okErr = true
			}
		}
		r.check(okErr, fnn+"|unlocked table guard", c.posStr(instrPos(lockedIf)),
			"`!table.locked` returns ErrTableNotLockedForWriting",
			"the not-locked branch does not return ErrTableNotLockedForWriting")
		// every effect dominated by the locked edge
		var effects []ssa.Instruction
		for _, ic := range indexCalls(c, fn) {
			if isMutation(ic.method) {
				effects = append(effects, ic.call)
			}
		}
		for _, ia := range allInstrs(fn) {
			if st, ok := ia.In.(*ssa.Store); ok {
				if fa, ok := st.Addr.(*ssa.FieldAddr); ok && fa.X == e {
					effects = append(effects, st)
				}
			}
			if call, ok := ia.In.(*ssa.Call); ok {
				if f := staticCallee(call); f != nil && (f.Name() == "mustIndexWriteTxn" || f.Name() == "indexWriteTxn") {
					effects = append(effects, call)
				}
			}
		}
		bad := 0
		var badAt ssa.Instruction
		for _, ef := range effects {
			if !im_lockedFact(e, ef.Block()) {
				bad++
				badAt = ef
			}
		}
		key := fnn + "|effects after the locked guard"
		if bad == 0 && len(effects) > 0 {
			r.ok(key, c.posStr(instrPos(lockedIf)), fmt.Sprintf("all %d effects (index transactions, index mutations, entry stores) are dominated by the true `locked` edge", len(effects)))
		} else if len(effects) == 0 {
			r.undecided(key, c.posStr(fn.Pos()), "no effects found in the function")
		} else {
			r.bad(key, c.posStr(instrPos(badAt)), "an effect executes before/without the `locked` guard: a rejected write to a table the transaction does not hold still changes something")
		}
		// every answer other than the two guard errors is given after the locked guard: a write to a
		// table the transaction does not hold reports ErrTableNotLockedForWriting whatever the
		// table contains (no "nothing to do" shortcut in front of the guard)
		var early *ssa.Return
		for _, ret := range returnsOf(fn) {
			eg := errGlobalOf(ret.Results[len(ret.Results)-1])
			if eg == "ErrTransactionClosed" || eg == "ErrTableNotLockedForWriting" {
				continue
			}
			if !im_lockedFact(e, ret.Block()) {
				early = ret
			}
		}
		if early == nil {
			r.ok(fnn+"|no answer before the locked guard", c.posStr(instrPos(lockedIf)), "every return other than the guard errors is dominated by the true `locked` edge")
		} else {
			r.bad(fnn+"|no answer before the locked guard", c.posStr(instrPos(early)), "the function can return (a result, or another error) before the table is known to be locked by this transaction: a write to a table the transaction does not hold is answered like a successful no-op instead of ErrTableNotLockedForWriting")
		}
	}
	// every write method reaches modify/delete
	writers := map[string][]string{
		"statedb.(genTable).Insert": nil, "statedb.(genTable).InsertWatch": nil, "statedb.(genTable).Modify": nil,
		"statedb.(genTable).CompareAndSwap": nil, "statedb.(genTable).Delete": nil, "statedb.(genTable).CompareAndDelete": nil,
		"statedb.(genTable).DeleteAll": nil, "statedb.(AnyTable).Insert": nil, "statedb.(AnyTable).Delete": nil,
	}
	var names []string
	for n := range writers {
		names = append(names, n)
	}
	sort.Strings(names)
	cg := c.CG()
	for _, n := range names {
		var fn *ssa.Function
		for _, f := range c.Funcs {
			if c.fnName(f) == n {
				fn = f
			}
		}
		if fn == nil {
			r.anchorMissing(n)
			continue
		}
		reach := cg.Reach([]*ssa.Function{fn}, nil)
		ok := false
		for f := range reach {
			fn2 := c.fnName(f)
			if fn2 == "statedb.(writeTxnState).modify" || fn2 == "statedb.(writeTxnState).delete" {
				ok = true
			}
		}
		r.check(ok, n+"|goes through the guarded primitives", c.posStr(fn.Pos()), "the write method is implemented by writeTxnState.modify/delete", "a table write method does not go through writeTxnState.modify/delete (and their guards)")
	}
}

func im_lockedFact(e ssa.Value, b *ssa.BasicBlock) bool {
	for _, f := range factsAt(b) {
		cond, val := stripNot(f.Cond, f.Val)
		if x, ok := loadOfField(cond, "tableEntry", "locked"); ok && val && x == e {
			return true
		}
	}
	return false
}

// ---- REVERT: path accounting ----

type pathState struct {
	revDelta   int
	badRestore string
	primary    int
	others     []string
	conds      map[ssa.Value]bool
	visits     map[*ssa.BasicBlock]int
}

func (p pathState) clone() pathState {
	q := p
	q.others = append([]string(nil), p.others...)
	q.conds = map[ssa.Value]bool{}
	for k, v := range p.conds {
		q.conds[k] = v
	}
	q.visits = map[*ssa.BasicBlock]int{}
	for k, v := range p.visits {
		q.visits[k] = v
	}
	return q
}

type pathEnd struct {
	ret *ssa.Return
	st  pathState
}

func ruleRevert(c *Ctx, r *Reporter) {
	// the public compare-and-* entry points hand the caller's revision on as it is: no value of it
	// is singled out (compared with a constant) on the way to the write primitive
	for _, spec := range [][2]string{{"genTable", "CompareAndSwap"}, {"genTable", "CompareAndDelete"}, {"", "guardWith"}} {
		fn := c.Func("statedb", spec[0], spec[1])
		if fn == nil {
			if spec[1] != "guardWith" {
				r.anchorMissing("statedb." + spec[1])
			}
			continue
		}
		bad := ""
		for _, ia := range allInstrs(fn) {
			bo, ok := ia.In.(*ssa.BinOp)
			if !ok {
				continue
			}
			for _, pair := range [][2]ssa.Value{{bo.X, bo.Y}, {bo.Y, bo.X}} {
				if p, ok := pair[0].(*ssa.Parameter); ok && namedTypeName(p.Type()) == "Revision" {
					if _, isC := pair[1].(*ssa.Const); isC {
						bad = c.posStr(instrPos(bo))
					}
				}
			}
		}
		r.checkP([]string{"C03"}, bad == "", c.fnName(fn)+"|every guard revision is compared", c.posStr(fn.Pos()), "the caller's revision reaches the write primitive without a special value", "the caller's guard revision is compared with a constant ("+bad+"): some revision value switches the comparison off")
	}
	for _, name := range []string{"modify", "delete"} {
		fn := c.Func("statedb", "writeTxnState", name)
		if fn == nil {
			r.anchorMissing("statedb.(writeTxnState)." + name)
			continue
		}
		fnn := c.fnName(fn)
		e := entryOf(fn)
		if e == nil {
			r.anchorMissing(fnn + ": table entry lookup")
			continue
		}
		calls := map[ssa.Instruction]idxCall{}
		for _, ic := range indexCalls(c, fn) {
			calls[ic.call] = ic
		}
		// revision stores
		var incs []*ssa.Store
		for _, ia := range allInstrs(fn) {
			if st, ok := ia.In.(*ssa.Store); ok {
				if fa, ok := st.Addr.(*ssa.FieldAddr); ok && fa.X == e {
					if _, f, _ := fieldOf(fa); f == "revision" {
						if bo, ok := st.Val.(*ssa.BinOp); ok && bo.Op == token.ADD {
							if x, ok := loadOfField(bo.X, "tableEntry", "revision"); ok && x == e {
								if k, ok := constInt(bo.Y); ok && k == 1 {
									incs = append(incs, st)
								}
							}
						}
					}
				}
			}
		}
		// the inverse of the increment: revision-- (equivalent to restoring the saved value when
		// exactly one increment precedes it, which the per-path delta decides)
		isDec := func(st *ssa.Store) bool {
			if bo, ok := st.Val.(*ssa.BinOp); ok && bo.Op == token.SUB {
				if x, ok := loadOfField(bo.X, "tableEntry", "revision"); ok && x == e {
					if k, ok := constInt(bo.Y); ok && k == 1 {
						return true
					}
				}
			}
			return false
		}
		isInc := func(st *ssa.Store) bool {
			for _, i := range incs {
				if i == st {
					return true
				}
			}
			return false
		}
		// a proper restore stores a value loaded from the field before any increment
		isRestore := func(st *ssa.Store) bool {
			x, ok := loadOfField(st.Val, "tableEntry", "revision")
			if !ok || x != e {
				return false
			}
			ld := st.Val.(ssa.Instruction)
			for _, i := range incs {
				if !instrDominates(ld, i) {
					return false
				}
			}
			return len(incs) > 0
		}

		var ends []pathEnd
		var walk func(b *ssa.BasicBlock, st pathState)
		steps := 0
		walk = func(b *ssa.BasicBlock, st pathState) {
			steps++
			if steps > 200000 {
				return
			}
			st.visits[b]++
			if st.visits[b] > 2 {
				return
			}
			for _, in := range b.Instrs {
				switch x := in.(type) {
				case *ssa.Store:
					if fa, ok := x.Addr.(*ssa.FieldAddr); ok && fa.X == e {
						if _, f, _ := fieldOf(fa); f == "revision" {
							switch {
							case isInc(x):
								st.revDelta++
							case isRestore(x):
								st.revDelta = 0
							case isDec(x):
								st.revDelta--
							default:
								st.badRestore = c.posStr(instrPos(x))
							}
						}
					}
				case *ssa.Call:
					if ic, ok := calls[x]; ok && isMutation(ic.method) {
						if ic.pos == posPrimary {
							st.primary++
						} else {
							st.others = append(st.others, fmt.Sprintf("%s on index %d at %s", ic.method, ic.pos, c.posStr(instrPos(x))))
						}
					}
				case *ssa.Return:
					ends = append(ends, pathEnd{x, st})
					return
				case *ssa.Panic:
					return
				case *ssa.If:
					for i, s := range b.Succs {
						val := i == 0
						if known, ok := st.conds[x.Cond]; ok && known != val {
							continue // infeasible: the same condition value was decided otherwise
						}
						ns := st.clone()
						ns.conds[x.Cond] = val
						walk(s, ns)
					}
					return
				}
			}
			for _, s := range b.Succs {
				walk(s, st.clone())
			}
		}
		walk(fn.Blocks[0], pathState{conds: map[ssa.Value]bool{}, visits: map[*ssa.BasicBlock]int{}})

		type agg struct {
			paths int
			bad   []string
		}
		perRet := map[*ssa.Return]*agg{}
		var order []*ssa.Return
		for _, pe := range ends {
			a := perRet[pe.ret]
			if a == nil {
				a = &agg{}
				perRet[pe.ret] = a
				order = append(order, pe.ret)
			}
			a.paths++
			errv := pe.ret.Results[len(pe.ret.Results)-1]
			isErr := !isNilConst(errv)
			hadOld := ""
			if name == "delete" {
				if cst, ok := pe.ret.Results[1].(*ssa.Const); ok && cst.Value != nil {
					hadOld = cst.Value.String()
				}
			}
			add := func(s string) {
				for _, x := range a.bad {
					if x == s {
						return
					}
				}
				a.bad = append(a.bad, s)
			}
			if pe.st.badRestore != "" {
				add("the revision counter is overwritten at " + pe.st.badRestore + " with something other than the value it had before the increment")
			}
			switch {
			case isErr:
				if pe.st.revDelta != 0 {
					add(fmt.Sprintf("an error is returned with the table revision advanced by %d and not restored: a rejected operation changes the revision", pe.st.revDelta))
				}
				if pe.st.primary != 0 && pe.st.primary != 2 {
					add(fmt.Sprintf("an error is returned after %d primary index mutation(s): the speculative write is not compensated", pe.st.primary))
				}
				if len(pe.st.others) > 0 {
					add("an error is returned after touching another index (" + pe.st.others[0] + "): a rejected operation leaves that index changed")
				}
			case name == "modify" || hadOld == "true":
				if pe.st.revDelta != 1 {
					add(fmt.Sprintf("a successful write returns with the revision advanced %d times (expected exactly once)", pe.st.revDelta))
				}
			default: // delete of an absent object
				if pe.st.revDelta != 0 {
					add("a no-op delete advances the table revision")
				}
				if len(pe.st.others) > 0 {
					add("a no-op delete touches an index (" + pe.st.others[0] + ")")
				}
			}
		}
		sort.Slice(order, func(i, j int) bool { return order[i].Pos() < order[j].Pos() })
		for i, ret := range order {
			a := perRet[ret]
			errv := ret.Results[len(ret.Results)-1]
			kind := "success"
			if !isNilConst(errv) {
				kind = "error " + errGlobalOf(errv)
			}
			key := fmt.Sprintf("%s|return#%d (%s)", fnn, i+1, kind)
			if len(a.bad) == 0 {
				r.ok(key, c.posStr(instrPos(ret)), fmt.Sprintf("%d path(s) to this return; revision and index accounting balanced", a.paths))
			} else {
				r.bad(key, c.posStr(instrPos(ret)), strings.Join(a.bad, "; "))
			}
		}
		if len(order) < 4 {
			r.undecided(fnn+"|returns", c.posStr(fn.Pos()), fmt.Sprintf("expected at least 4 return sites, enumerated %d", len(order)))
		}
		// a rejected write leaves the index transaction untouched: mutate-then-revert restores the
		// contents, but the radix transaction has marked the watch channels of the nodes involved
		// and Commit closes them although table and revision are unchanged (a woken reader sees the
		// revision of the snapshot its channel came from)
		{
			touched := ""
			for _, pe := range ends {
				errv := pe.ret.Results[len(pe.ret.Results)-1]
				if isNilConst(errv) {
					continue
				}
				if pe.st.primary > 0 {
					touched = c.posStr(instrPos(pe.ret))
				}
			}
			r.checkP([]string{"C06"}, touched == "", fnn+"|a rejected write does not touch the index", c.posStr(fn.Pos()), "no error return after a primary index mutation", "a rejected compare-and-* ("+touched+") has modified the primary index and reverted it: contents and revision are restored, but the reverted mutation has marked watch channels (the key's leaf, the nodes on its path, the index root) and Commit closes them - GetWatch/PrefixWatch/AllWatch waiters wake up and see an unchanged table revision")
		}
		// the stored object carries the post-increment revision
		okRev := false
		var revPos token.Pos = fn.Pos()
		for _, ia := range allInstrs(fn) {
			st, ok := ia.In.(*ssa.Store)
			if !ok {
				continue
			}
			fa, ok := st.Addr.(*ssa.FieldAddr)
			if !ok {
				continue
			}
			if tn, f, _ := fieldOf(fa); tn != "object" || f != "revision" {
				continue
			}
			if x, ok := loadOfField(st.Val, "tableEntry", "revision"); ok && x == e {
				revPos = st.Pos()
				ld := st.Val.(ssa.Instruction)
				for _, i := range incs {
					if instrDominates(i, ld) {
						okRev = true
					}
				}
			}
		}
		r.checkP([]string{"C09"}, okRev, fnn+"|object carries the new revision", c.posStr(revPos),
			"the object written to the indexes carries the table revision loaded after the increment",
			"the object written to the indexes does not carry the post-increment table revision")
		// rejection is an exact inequality against the guard
		okCmp := false
		var cmpPos token.Pos = fn.Pos()
		guard := fn.Params[2]
		// the guard revision: the parameter itself, or the integer field of a guard struct parameter
		isGuardVal := func(v ssa.Value) bool {
			if v == ssa.Value(guard) {
				return true
			}
			if addr, ok := isLoad(v); ok {
				if fa, ok := addr.(*ssa.FieldAddr); ok {
					if al, ok := fa.X.(*ssa.Alloc); ok {
						for _, st := range storesTo(fn, al) {
							if st.Val == ssa.Value(guard) {
								bt, ok := v.Type().Underlying().(*types.Basic)
								return ok && bt.Info()&types.IsInteger != 0
							}
						}
					}
				}
			}
			if fl, ok := v.(*ssa.Field); ok && fl.X == ssa.Value(guard) {
				bt, ok := v.Type().Underlying().(*types.Basic)
				return ok && bt.Info()&types.IsInteger != 0
			}
			return false
		}
		sentinel := ""
		for _, ia := range allInstrs(fn) {
			bo, ok := ia.In.(*ssa.BinOp)
			if !ok {
				continue
			}
			if !isGuardVal(bo.X) && !isGuardVal(bo.Y) {
				continue
			}
			other := bo.X
			if isGuardVal(bo.X) {
				other = bo.Y
			}
			if _, isC := other.(*ssa.Const); isC {
				// the caller's revision value doubles as the "no guard" flag
				sentinel = c.posStr(instrPos(bo))
				continue
			}
			cmpPos = bo.Pos()
			isRevLoad := false
			if p, ok := isLoad(other); ok {
				if fa, ok := p.(*ssa.FieldAddr); ok {
					if tn, f, _ := fieldOf(fa); tn == "object" && f == "revision" {
						isRevLoad = true
					}
				}
			}
			if f, ok := other.(*ssa.Field); ok {
				if _, fname, _ := fieldOf(f); fname == "revision" {
					isRevLoad = true
				}
			}
			if bo.Op == token.NEQ && isRevLoad {
				okCmp = true
			} else {
				okCmp = false
				break
			}
		}
		r.checkP([]string{"C03"}, sentinel == "", fnn+"|guard revision is not also the 'no guard' flag", c.posStr(fn.Pos()),
			"whether a write is guarded is carried separately from the guard revision",
			"the guard revision is compared with a constant ("+sentinel+") to decide whether the write is guarded at all: a caller of CompareAndSwap/CompareAndDelete passing that value (revision 0, as Get returns for a missing object) gets an unguarded Insert/Delete instead of ErrObjectNotFound/ErrRevisionNotEqual")
		r.checkP([]string{"C03"}, okCmp, fnn+"|guard is exact inequality", c.posStr(cmpPos),
			"the compare-and-* rejection test is `object.revision != guardRevision`",
			"the compare-and-* guard is not an exact inequality between the stored object's revision and the guard revision: some mismatching guards are accepted (or matching ones rejected)")
	}
}

func ruleMergeWrapper(c *Ctx, r *Reporter) {
	fn := c.Func("statedb", "genTable", "Modify")
	if fn == nil {
		r.anchorMissing("statedb.(genTable).Modify")
		return
	}
	n := 0
	for _, a := range fn.AnonFuncs {
		if len(a.Params) != 2 || namedTypeName(a.Params[0].Type()) != "object" {
			continue
		}
		n++
		good := true
		for _, ret := range returnsOf(a) {
			v := ret.Results[0]
			p, ok := isLoad(v)
			if !ok {
				good = v == ssa.Value(a.Params[1])
				continue
			}
			al, ok := p.(*ssa.Alloc)
			if !ok {
				good = false
				continue
			}
			whole := 0
			for _, ia := range allInstrs(a) {
				st, ok := ia.In.(*ssa.Store)
				if !ok {
					continue
				}
				if st.Addr == ssa.Value(al) {
					if st.Val == ssa.Value(a.Params[1]) {
						whole++
					} else {
						good = false
					}
				} else if fa, ok := st.Addr.(*ssa.FieldAddr); ok && fa.X == ssa.Value(al) {
					if _, f, _ := fieldOf(fa); f != "data" {
						good = false
					}
				}
			}
			if whole != 1 {
				good = false
			}
		}
		r.check(good, "statedb.(genTable).Modify|merge adapter returns new", c.posStr(a.Pos()),
			"the adapter returns its `new` argument with only .data replaced",
			"the merge adapter does not return the new internal object: the modified object keeps the old revision while the table revision advances (wrong revision reported, change invisible to by-revision queries)")
	}
	if n == 0 {
		r.anchorMissing("merge adapter closure in genTable.Modify")
	}
}

func ruleIndexFamilies(c *Ctx, r *Reporter) {
	for _, name := range []string{"modify", "delete"} {
		fn := c.Func("statedb", "writeTxnState", name)
		if fn == nil {
			r.anchorMissing("statedb.(writeTxnState)." + name)
			continue
		}
		fnn := c.fnName(fn)
		ics := indexCalls(c, fn)
		// success returns
		var succ []*ssa.Return
		for _, ret := range returnsOf(fn) {
			if !isNilConst(ret.Results[len(ret.Results)-1]) {
				continue
			}
			if name == "delete" {
				if cst, ok := ret.Results[1].(*ssa.Const); ok && cst.Value != nil && cst.Value.String() == "false" {
					continue
				}
			}
			succ = append(succ, ret)
		}
		if len(succ) == 0 {
			r.anchorMissing(fnn + ": success return")
			continue
		}
		domAll := func(in ssa.Instruction) bool {
			for _, s := range succ {
				if !instrDominates(in, s) {
					return false
				}
			}
			return true
		}
		find := func(method string, pos int64) []idxCall {
			var out []idxCall
			for _, ic := range ics {
				if ic.method == method && ic.pos == pos && ic.write {
					out = append(out, ic)
				}
			}
			return out
		}
		// revision index
		if name == "modify" {
			ins := find("insert", posRevision)
			ok := false
			for _, ic := range ins {
				if domAll(ic.call) {
					ok = true
				}
			}
			r.checkP([]string{"C04"}, ok, fnn+"|revision index insert", c.posStr(fn.Pos()), "every successful modify inserts the new object into the revision index", "a successful insert/modify path does not insert into the revision index: the object is missing from by-revision queries, NumObjects and change iterators")
			del := find("delete", posRevision)
			ok = false
			for _, ic := range del {
				for _, f := range factsAt(ic.call.Block()) {
					if f.Val && isBoolPhiOrExtract(f.Cond) {
						ok = true
					}
				}
			}
			r.checkP([]string{"C04"}, ok, fnn+"|old revision key removed", c.posStr(fn.Pos()), "when an old object existed its revision key is deleted", "replacing an object does not remove its old revision-index entry: the old version stays visible by revision")
		} else {
			del := find("delete", posRevision)
			ok := false
			for _, ic := range del {
				if domAll(ic.call) {
					ok = true
				}
			}
			r.checkP([]string{"C04"}, ok, fnn+"|revision index delete", c.posStr(fn.Pos()), "every successful delete removes the object from the revision index", "a successful delete path leaves the object in the revision index")
		}
		// secondary loop
		okLoop := false
		for _, ic := range ics {
			if ic.method == "reindex" && ic.pos == -1 && blockReaches(ic.call.Block(), ic.call.Block()) {
				// the loop's range source is meta.secondary(), and the loop header dominates success
				for _, ia := range allInstrs(fn) {
					if call, ok := ia.In.(*ssa.Call); ok && call.Call.IsInvoke() && call.Call.Method.Name() == "secondary" && domAll(call) {
						okLoop = true
					}
				}
			}
		}
		r.checkP([]string{"C04"}, okLoop, fnn+"|reindex over all secondary indexers", c.posStr(fn.Pos()), "every successful path runs reindex in a loop over meta.secondary()", "a successful write path does not reindex all secondary indexes")
		if name == "modify" {
			// new key: graveyard cleaned in both indexes
			g1 := find("delete", posGraveyard)
			g2 := find("delete", posGraveyardRev)
			ok := len(g1) == 1 && len(g2) == 1 && g1[0].call.Block() == g2[0].call.Block()
			if ok {
				// under `existed` of a graveyard get, and under nothing else than "the key is new"
				ok = false
				extra := false
				for _, f := range factsAt(g1[0].call.Block()) {
					if ex, isEx := f.Cond.(*ssa.Extract); isEx && f.Val {
						if call, ok2 := ex.Tuple.(*ssa.Call); ok2 && call.Call.IsInvoke() && call.Call.Method.Name() == "get" {
							ok = true
						}
					}
					if call, isCall := f.Cond.(*ssa.Call); isCall {
						if sf := staticCallee(call); sf != nil && sf.Name() == "hasDeleteTrackers" {
							extra = true // the stale entry must go even when no iterator is open right now
						}
					}
				}
				// no condition beyond "the key is new" and "found in the graveyard": compare with the
				// facts that hold where the revision index is updated (on every successful path)
				base := map[string]bool{}
				icMap := map[ssa.Instruction]idxCall{}
				for _, ic := range ics {
					icMap[ic.call] = ic
				}
				if ri := find("insert", posRevision); len(ri) > 0 {
					for _, f := range factsAt(ri[0].call.Block()) {
						base[fmt.Sprintf("%p/%v", f.Cond, f.Val)] = true
					}
				}
				for _, f := range factsAt(g1[0].call.Block()) {
					if base[fmt.Sprintf("%p/%v", f.Cond, f.Val)] {
						continue
					}
					if ex, isEx := f.Cond.(*ssa.Extract); isEx && f.Val {
						if call, ok2 := ex.Tuple.(*ssa.Call); ok2 && call.Call.IsInvoke() && call.Call.Method.Name() == "get" {
							continue
						}
					}
					if !f.Val && isPrimaryExisted(f.Cond, icMap) {
						continue
					}
					extra = true
				}
				if extra {
					ok = false
				}
			}
			r.checkP([]string{"C08", "C04", "C03"}, ok, fnn+"|re-insert cleans both graveyard indexes", c.posStr(fn.Pos()), "inserting a key found in the graveyard deletes it from the graveyard and the graveyard-revision index together", "re-inserting a deleted key does not clean both graveyard indexes together: a stale retained deletion is delivered later or never collected")
		} else {
			g1 := find("insert", posGraveyard)
			g2 := find("insert", posGraveyardRev)
			ok := len(g1) == 1 && len(g2) == 1
			guarded := false
			if ok {
				for _, ic := range []idxCall{g1[0], g2[0]} {
					has := false
					for _, f := range factsAt(ic.call.Block()) {
						if call, isCall := f.Cond.(*ssa.Call); isCall && f.Val {
							if sf := staticCallee(call); sf != nil && sf.Name() == "hasDeleteTrackers" {
								has = true
							}
						}
					}
					if !has {
						ok = false
					}
				}
				guarded = ok
			}
			r.checkP([]string{"C08"}, guarded, fnn+"|graveyard insert pair under trackers", c.posStr(fn.Pos()), "a deleted object goes into both graveyard indexes, exactly under hasDeleteTrackers()", "a deletion is not recorded in both graveyard indexes under the delete-tracker test: an open change iterator misses the deletion (or objects are retained with no iterator)")
			// the graveyard object carries the deletion's revision (post increment)
			okRev := false
			e := entryOf(fn)
			if len(g2) == 1 && e != nil {
				// key of graveyard-revision insert = index.Uint64(revision) with revision loaded after increment
				if call, ok := g2[0].call.Call.Args[0].(*ssa.Call); ok && len(call.Call.Args) == 1 {
					if x, ok := loadOfField(call.Call.Args[0], "tableEntry", "revision"); ok && x == e {
						okRev = true
					}
				}
			}
			r.checkP([]string{"C08", "C09"}, okRev, fnn+"|graveyard keyed by deletion revision", c.posStr(fn.Pos()), "the graveyard-revision key is the table revision assigned to the deletion", "the graveyard-revision index is not keyed by the deletion's own revision: change iterators order/skip the deletion wrongly")
		}
	}
	// hasDeleteTrackers reads the transaction's own entry
	if fn := c.Func("statedb", "writeTxnState", "hasDeleteTrackers"); fn != nil {
		own := false
		other := false
		for _, ia := range allInstrs(fn) {
			switch x := ia.In.(type) {
			case *ssa.UnOp:
				if _, ok := loadOfField(x, "writeTxnState", "tableEntries"); ok {
					own = true
				}
				if _, ok := loadOfField(x, "writeTxnState", "oldRoot"); ok {
					other = true
				}
			case *ssa.Call:
				n := c.calleeName(x)
				if strings.Contains(n, "committedRoot") || strings.Contains(n, "ReadTxn") {
					other = true
				}
			}
		}
		r.checkP([]string{"C08"}, own && !other, "statedb.(writeTxnState).hasDeleteTrackers|own view", c.posStr(fn.Pos()), "the tracker test reads the transaction's own table entry (sees trackers registered in this transaction)", "the delete-tracker test does not read the transaction's own table entry: a deletion made in the transaction that registered the first iterator is not retained")
	} else {
		r.anchorMissing("statedb.(writeTxnState).hasDeleteTrackers")
	}
	// collector: graveyard delete only after the revision-key delete confirmed it
	if fn := c.Func("statedb", "", "graveyardWorker"); fn != nil {
		ics := indexCalls(c, fn)
		var d1, d2 []idxCall
		for _, ic := range ics {
			if ic.method == "delete" && ic.pos == posGraveyard {
				d1 = append(d1, ic)
			}
			if ic.method == "delete" && ic.pos == posGraveyardRev {
				d2 = append(d2, ic)
			}
		}
		ok := len(d1) == 1 && len(d2) == 1
		if ok {
			ok = false
			for _, f := range factsAt(d1[0].call.Block()) {
				if ex, isEx := f.Cond.(*ssa.Extract); isEx && f.Val && ex.Tuple == ssa.Value(d2[0].call) && ex.Index == 1 {
					ok = true
				}
			}
		}
		r.checkP([]string{"C08"}, ok, "statedb.graveyardWorker|graveyard delete after confirmed revision delete", c.posStr(fn.Pos()), "the collector deletes from the graveyard only the object its deletion-revision delete returned (`existed`)", "the collector removes graveyard entries without the deletion-revision re-check: a key re-deleted since the scan (newer deletion) is collected before it was observed")
		// no other index mutation by the collector
		for _, ic := range ics {
			if isMutation(ic.method) && ic.pos != posGraveyard && ic.pos != posGraveyardRev {
				r.badP([]string{"C08", "C04"}, fmt.Sprintf("statedb.graveyardWorker|mutates index %d", ic.pos), c.posStr(instrPos(ic.call)), "the collector modifies an index other than the two graveyard indexes")
			}
		}
	} else {
		r.anchorMissing("statedb.graveyardWorker")
	}
}

func isBoolPhiOrExtract(v ssa.Value) bool {
	switch v.(type) {
	case *ssa.Phi, *ssa.Extract:
		return true
	}
	return false
}

func init() {
	register(&Rule{
		ID: "TXN-VIEWS", Props: []string{"C03", "C07", "C02"}, Floor: 7,
		Doc: "a write transaction reads its own state through txn.tableEntries (root, getTableEntry, indexReadTxn, indexWriteTxn: read-your-writes) and exposes the state at its start only through committedRoot() = *txn.oldRoot; a read transaction's root and committedRoot are the same slice",
		Run: ruleTxnViews,
	})
	register(&Rule{
		ID: "NONUNIQUE-FILTER", Props: []string{"C04"}, Floor: 3,
		Doc: "on non-unique indexes Get and List accept exactly the entries whose secondary key length equals the (escaped) search key's length, Prefix those that are at least as long: the three filters are (in)equalities between nonUniqueKey.secondaryLen() and len(searchKey) with these operators",
		Run: ruleNonUniqueFilter,
	})
}

func ruleTxnViews(c *Ctx, r *Reporter) {
	usesField := func(fn *ssa.Function, typeName, field string) bool {
		for _, ia := range allInstrs(fn) {
			if u, ok := ia.In.(*ssa.UnOp); ok {
				if _, ok := loadOfField(u, typeName, field); ok {
					return true
				}
			}
		}
		return false
	}
	type spec struct {
		recv, name    string
		must, mustNot string
		why           string
	}
	for _, s := range []spec{
		{"writeTxnState", "root", "tableEntries", "oldRoot", "the transaction's own (uncommitted) view"},
		{"writeTxnState", "getTableEntry", "tableEntries", "oldRoot", "the transaction's own view"},
		{"writeTxnState", "indexReadTxn", "tableEntries", "oldRoot", "reads see the transaction's earlier writes"},
		{"writeTxnState", "indexWriteTxn", "tableEntries", "oldRoot", "writes go to the private entry"},
		{"writeTxnState", "hasDeleteTrackers", "tableEntries", "oldRoot", "trackers registered in this transaction count"},
		{"writeTxnState", "committedRoot", "oldRoot", "tableEntries", "the committed state at WriteTxn time, without this transaction's writes"},
	} {
		fn := c.Func("statedb", s.recv, s.name)
		if fn == nil {
			r.anchorMissing("statedb.(" + s.recv + ")." + s.name)
			continue
		}
		good := usesField(fn, "writeTxnState", s.must) && !usesField(fn, "writeTxnState", s.mustNot)
		r.check(good, c.fnName(fn)+"|reads txn."+s.must, c.posStr(fn.Pos()), "reads txn."+s.must+": "+s.why, "reads the wrong root (expected txn."+s.must+", never txn."+s.mustNot+"): "+s.why+" no longer holds")
	}
	// readTxn: root() and committedRoot() both return *r
	for _, n := range []string{"root", "committedRoot"} {
		fn := c.Func("statedb", "readTxn", n)
		if fn == nil {
			r.anchorMissing("statedb.(readTxn)." + n)
			continue
		}
		good := false
		for _, ret := range returnsOf(fn) {
			if p, ok := isLoad(stripConv(ret.Results[0])); ok && p == ssa.Value(fn.Params[0]) {
				good = true
			}
		}
		r.check(good, c.fnName(fn)+"|returns the snapshot itself", c.posStr(fn.Pos()), "returns *r", "a read transaction's "+n+"() is not the snapshot slice itself")
	}
}

func ruleNonUniqueFilter(c *Ctx, r *Reporter) {
	// collect comparisons secondaryLen() <op> len(x) per function
	type cmpInfo struct {
		op   token.Token
		bo   *ssa.BinOp
		fact []edgeFact
	}
	find := func(fn *ssa.Function) []cmpInfo {
		var out []cmpInfo
		for _, f := range withAnon(fn) {
			for _, ia := range allInstrs(f) {
				bo, ok := ia.In.(*ssa.BinOp)
				if !ok {
					continue
				}
				isSL := func(v ssa.Value) bool {
					call, ok := v.(*ssa.Call)
					if !ok {
						return false
					}
					sf := staticCallee(call)
					return sf != nil && sf.Name() == "secondaryLen"
				}
				isLen := func(v ssa.Value) bool {
					call, ok := v.(*ssa.Call)
					if !ok {
						return false
					}
					b, ok := call.Call.Value.(*ssa.Builtin)
					return ok && b.Name() == "len"
				}
				if isSL(bo.X) && isLen(bo.Y) {
					out = append(out, cmpInfo{bo.Op, bo, factsAt(bo.Block())})
				}
			}
		}
		return out
	}
	if fn := c.Func("statedb", "", "partGet"); fn != nil {
		cs := find(fn)
		good := len(cs) == 1 && cs[0].op == token.EQL
		r.check(good, "statedb.partGet|exact secondary length", c.posStr(fn.Pos()), "Get on a non-unique index accepts an entry iff secondaryLen() == len(searchKey)", "Get on a non-unique index does not require the secondary key length to equal the search key's: a longer key sharing the prefix is returned")
	} else {
		r.anchorMissing("statedb.partGet")
	}
	if fn := c.Func("statedb", "nonUniquePartIterator", "All"); fn != nil {
		cs := find(fn)
		var list, prefix bool
		for _, ci := range cs {
			switch ci.op {
			case token.NEQ:
				list = true // List: skip when lengths differ
			case token.LSS:
				prefix = true // Prefix: skip when shorter
			}
		}
		r.check(list && len(cs) == 2, "statedb.(nonUniquePartIterator).All|List skips entries of another length", c.posStr(fn.Pos()), "List: `secondaryLen != len(searchKey)` -> skip", "List on a non-unique index no longer skips exactly the entries whose secondary key has a different length")
		r.check(prefix && len(cs) == 2, "statedb.(nonUniquePartIterator).All|Prefix skips shorter entries", c.posStr(fn.Pos()), "Prefix: `secondaryLen < len(searchKey)` -> skip", "Prefix on a non-unique index no longer skips exactly the entries whose secondary key is shorter than the search key")
	} else {
		r.anchorMissing("statedb.(nonUniquePartIterator).All")
	}
}

// isPrimaryExisted: v is the "an object existed under this primary key" result of the
// primary index insert/modify (possibly merged by a phi over both call forms).
func isPrimaryExisted(v ssa.Value, calls map[ssa.Instruction]idxCall) bool {
	switch x := v.(type) {
	case *ssa.Extract:
		call, ok := x.Tuple.(*ssa.Call)
		if !ok {
			return false
		}
		ic, ok := calls[call]
		return ok && ic.pos == posPrimary && (ic.method == "insert" || ic.method == "modify")
	case *ssa.Phi:
		for _, e := range x.Edges {
			if !isPrimaryExisted(e, calls) {
				return false
			}
		}
		return len(x.Edges) > 0
	}
	return false
}
