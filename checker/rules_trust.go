package main

import (
	"fmt"
	"go/ast"
	"go/types"
	"sort"
	"strings"
)

func init() {
	register(&Rule{
		ID: "TRUST-SITES", Props: []string{"C01", "C11"}, Floor: 14,
		Doc: "uses of package unsafe and reflect (invisible to the ownership analysis) occur only in the functions whose use was read and classified; a new site must be classified before the persistence checks can be trusted",
		Run: ruleTrustSites,
	})
	register(&Rule{
		ID: "REGION-CLOSURE", Props: []string{"C01"}, Floor: 10,
		Doc: "every struct type of the module reachable (by pointer, slice, array, embedded value or interface implementation named in the table) from a published root is classified: persistent (T-REGIONS), mutable handle with its own synchronisation, or user data",
		Run: ruleRegionClosure,
	})
}

// functions allowed to use unsafe/reflect, with the reason
var trustSites = map[string]string{
	"index.String":                   "unsafe.Slice over string data: read-only key view",
	"part.(header).key":              "reads prefixP",
	"part.(header).prefix":           "unsafe.Slice view of the prefix bytes (caller-owned key bytes)",
	"part.(header).isPrefixOf":       "unsafe.String view for comparison",
	"part.(header).getLeaf":          "header -> leaf cast, only under kind==leaf (HELPER-SHAPE)",
	"part.(header).node4":            "header -> node cast (HELPER-SHAPE)",
	"part.(header).node16":           "header -> node cast (HELPER-SHAPE)",
	"part.(header).node48":           "header -> node cast (HELPER-SHAPE)",
	"part.(header).node256":          "header -> node cast (HELPER-SHAPE)",
	"part.(leaf).fullKey":            "unsafe.Slice view of the key bytes",
	"part.(Map).SlowEqual":           "reflect.DeepEqual: read-only",
	"part.RegisterKeyType":           "reflect.TypeFor: type registry key",
	"part.lookupKeyType":             "reflect.TypeFor: type registry key",
	"part.init":                      "reflect.TypeFor: type registry key",
	"statedb.(WatchSet).Wait":        "reflect.Select/ValueOf on channels (WAIT-REMOVE-RETURN)",
	"statedb.(writeTxnState).modify": "reflect.ValueOf(...).UnsafePointer(): same-object sanity check, read-only",
}

func ruleTrustSites(c *Ctx, r *Reporter) {
	n := 0
	for _, p := range c.Pkgs {
		pk := shortPkg(p.PkgPath)
		if strings.HasPrefix(pk, "reconciler/") {
			continue // example and benchmark programs
		}
		for _, f := range p.Syntax {
			for _, d := range f.Decls {
				var name string
				var body ast.Node
				switch x := d.(type) {
				case *ast.FuncDecl:
					if x.Body == nil {
						continue
					}
					name = x.Name.Name
					if x.Recv != nil && len(x.Recv.List) > 0 {
						t := x.Recv.List[0].Type
						if st, ok := t.(*ast.StarExpr); ok {
							t = st.X
						}
						if ix, ok := t.(*ast.IndexExpr); ok {
							t = ix.X
						}
						if ix, ok := t.(*ast.IndexListExpr); ok {
							t = ix.X
						}
						name = "(" + types.ExprString(t) + ")." + name
					}
					body = x.Body
				case *ast.GenDecl:
					if x.Tok.String() != "var" {
						continue // type/const declarations only mention types
					}
					name = "init"
					body = x
				}
				if body == nil {
					continue
				}
				uses := map[string]ast.Node{}
				ast.Inspect(body, func(nd ast.Node) bool {
					sel, ok := nd.(*ast.SelectorExpr)
					if !ok {
						return true
					}
					id, ok := sel.X.(*ast.Ident)
					if !ok {
						return true
					}
					if pn, ok := p.TypesInfo.Uses[id].(*types.PkgName); ok {
						ip := pn.Imported().Path()
						if ip == "unsafe" || ip == "reflect" {
							uses[ip+"."+sel.Sel.Name] = sel
						}
					}
					return true
				})
				if len(uses) == 0 {
					continue
				}
				var ks []string
				for k := range uses {
					ks = append(ks, k)
				}
				sort.Strings(ks)
				full := pk + "." + name
				n++
				key := full + "|" + strings.Join(ks, ",")
				if why, ok := trustSites[full]; ok {
					r.ok(key, c.posStr(uses[ks[0]].Pos()), "classified: "+why)
				} else {
					r.undecided(key, c.posStr(uses[ks[0]].Pos()), "a use of unsafe/reflect outside the classified functions: writes through it are invisible to the ownership analysis; read it and add it to the table (or remove it)")
				}
			}
		}
	}
	if n == 0 {
		r.anchorMissing("unsafe/reflect uses")
	}
}

// types that are reachable from a root but mutable by design, with their own
// discipline (E4), and types that carry user data
var regionExempt = map[string]string{
	"statedb.genTable":         "table metadata handle; mutable fields guarded by acquiredInfo.mu / written once at registration",
	"statedb.acquiredInfo":     "guarded by its own mutex",
	"statedb.deleteTracker":    "atomic watermark + owner-only fields; the collector reads it only through getRevision()",
	"statedb.DB":               "handle",
	"statedb.dbState":          "the database itself",
	"statedb.anyIndexer":       "immutable after table construction",
	"statedb.object":           "value type; user data is the caller's contract",
	"statedb.Index":            "user-provided indexer value (immutable by contract)",
	"statedb.LPMIndex":         "user-provided indexer value",
	"statedb.NetIPPrefixIndex": "user-provided indexer value",
	"part.Txn":                 "writer scratch reachable only through Tree.prevTxn (recycling slot; TXN-RESET, TXN-RETIRE)",
	"part.options":             "value copied",
	"part.deleteParent":        "writer scratch",
	"internal.sortableMutex":   "the table lock",
	"lpm.Txn":                  "writer scratch reachable only through lpmIndex.prevTxn (cleared on commit: TXN-RETIRE)",
	"lpm.lpmDeleteParent":      "writer scratch",
	"index.KeySet":             "value",
	"statedb.lpmIndexTxn":      "writer transaction object: installed only in the private indexes slice of a locked entry (indexWriteTxn) and replaced by commit() before the entry is published (COMMIT-ORDER)",
}

func ruleRegionClosure(c *Ctx, r *Reporter) {
	// roots: statedb.tableEntry, part.Tree, lpm.Trie, part.Map, part.Set
	seen := map[string]bool{}
	var order []string
	pos := map[string]string{}
	var walk func(t types.Type, depth int)
	walk = func(t types.Type, depth int) {
		if depth > 12 {
			return
		}
		switch x := types.Unalias(t).(type) {
		case *types.Pointer:
			walk(x.Elem(), depth+1)
		case *types.Slice:
			walk(x.Elem(), depth+1)
		case *types.Array:
			walk(x.Elem(), depth+1)
		case *types.Map:
			walk(x.Key(), depth+1)
			walk(x.Elem(), depth+1)
		case *types.Named:
			o := x.Origin().Obj()
			if o.Pkg() == nil || !strings.HasPrefix(o.Pkg().Path(), modPath) {
				return
			}
			k := shortPkg(o.Pkg().Path()) + "." + o.Name()
			if seen[k] {
				return
			}
			seen[k] = true
			switch u := x.Origin().Underlying().(type) {
			case *types.Struct:
				order = append(order, k)
				pos[k] = c.posStr(o.Pos())
				for i := 0; i < u.NumFields(); i++ {
					walk(u.Field(i).Type(), depth+1)
				}
			case *types.Interface:
				// implementations inside the module
				for _, p := range c.Pkgs {
					sc := p.Types.Scope()
					for _, n := range sc.Names() {
						tn, ok := sc.Lookup(n).(*types.TypeName)
						if !ok || tn.IsAlias() {
							continue
						}
						nt, ok := tn.Type().(*types.Named)
						if !ok || nt.TypeParams().Len() > 0 {
							// generic types: match by method names
							if ok && hasAllMethods(nt, u) {
								walk(nt, depth+1)
							}
							continue
						}
						if _, isI := nt.Underlying().(*types.Interface); isI {
							continue
						}
						if types.Implements(nt, u) || types.Implements(types.NewPointer(nt), u) {
							walk(nt, depth+1)
						}
					}
				}
			default:
				walk(x.Origin().Underlying(), depth+1)
			}
		}
	}
	for _, root := range [][2]string{{"statedb", "tableEntry"}, {"part", "Tree"}, {"lpm", "Trie"}, {"part", "Map"}, {"part", "Set"}} {
		for _, p := range c.Pkgs {
			if shortPkg(p.PkgPath) == root[0] {
				if o := p.Types.Scope().Lookup(root[1]); o != nil {
					walk(o.Type(), 0)
				}
			}
		}
	}
	sort.Strings(order)
	for _, k := range order {
		key := "type|" + k
		if _, ok := persistentTypes[k]; ok {
			r.ok(key, pos[k], "persistent (T-REGIONS): every write is checked by IMMUT")
			continue
		}
		if why, ok := regionExempt[k]; ok {
			r.ok(key, pos[k], "exempt: "+why)
			continue
		}
		r.undecided(key, pos[k], fmt.Sprintf("struct type %s is reachable from a published version but is neither in T-REGIONS nor in the exemption table: writes to it are not checked - classify it", k))
	}
}

func hasAllMethods(nt *types.Named, it *types.Interface) bool {
	if it.NumMethods() == 0 {
		return false
	}
	ms := types.NewMethodSet(types.NewPointer(nt))
	for i := 0; i < it.NumMethods(); i++ {
		m := it.Method(i)
		found := false
		for j := 0; j < ms.Len(); j++ {
			if ms.At(j).Obj().Name() == m.Name() {
				found = true
			}
		}
		if !found {
			return false
		}
	}
	return true
}
