package main

import (
	"fmt"
	"go/token"
	"go/types"
	"sort"
	"strings"

	"golang.org/x/tools/go/ssa"
)

func init() {
	register(&Rule{
		ID: "WATCH-PAIR", Props: []string{"C06", "C12"}, Floor: 8,
		Doc: "every site in package part that replaces a radix node by a copy (header.clone, header.promote, &nodeN{header: *x}) either retains the source's watch channel on the copy or queues it in txn.watches (the `if x.watch != nil` idiom counts) on every path; a copy that retains the channel is never stamped with the current txnID",
		Run: ruleWatchPair,
	})
	register(&Rule{
		ID: "WATCH-REG", Props: []string{"C06", "C12"}, Floor: 6,
		Doc: "the registrations txn.watches[x.watch] for nodes that are dropped or replaced in delete/removeChild/cloneNode/modify are all present (frozen multiset per function and source)",
		Run: ruleWatchReg,
	})
	register(&Rule{
		ID: "NOTIFY-ALL", Props: []string{"C06", "C12"}, Floor: 7,
		Doc: "part.Txn.Notify closes every queued channel (range over txn.watches without exit) and the root channel exactly under txn.dirty; Commit allocates a new root channel iff dirty; dirty=true dominates every replacement and registration in modify/delete; root-only trees hand out txn.rootWatch; lpmIndexTxn.commit installs a fresh index channel",
		Run: ruleNotifyAll,
	})
	register(&Rule{
		ID: "WATCH-ORIGIN", Props: []string{"C06"}, Floor: 20,
		Doc: "every watch channel returned by a query method originates from the index it queried (tree Get/Prefix/RootWatch result, the LPM index channel) and is the channel result of the same reader call whose other result is returned; never a freshly made or the pre-closed channel (except Initialized and ChangeIterator.Next by contract)",
		Run: ruleWatchOrigin,
	})
}

// watchSrc: v is *(&x.watch) for a header x; returns x.
func watchLoadOf(v ssa.Value) (ssa.Value, bool) {
	addr, ok := isLoad(v)
	if !ok {
		return nil, false
	}
	fa, ok := addr.(*ssa.FieldAddr)
	if !ok {
		return nil, false
	}
	if _, f, _ := fieldOf(fa); f != "watch" {
		return nil, false
	}
	return headerRoot(fa.X), true
}

// headerRoot strips &x.header and alias helpers to find the node value.
func headerRoot(v ssa.Value) ssa.Value {
	for {
		v = derefLocal(v)
		switch x := v.(type) {
		case *ssa.FieldAddr:
			if _, f, _ := fieldOf(x); f == "header" {
				v = x.X
				continue
			}
			return v
		case *ssa.ChangeType:
			v = x.X
		case *ssa.Convert:
			v = x.X
		case *ssa.Call:
			if f := staticCallee(x); f != nil {
				switch f.Name() {
				case "self", "node4", "node16", "node48", "node256":
					if len(x.Call.Args) > 0 {
						v = x.Call.Args[0]
						continue
					}
				}
			}
			return v
		default:
			return v
		}
	}
}

type watchReg struct {
	mu   *ssa.MapUpdate
	src  ssa.Value // the node whose watch is queued
	eff  ssa.Instruction
	desc string
}

func srcDesc(c *Ctx, fn *ssa.Function, v ssa.Value) string {
	v = derefLocal(v)
	switch x := v.(type) {
	case *ssa.Parameter:
		for i, p := range fn.Params {
			if p == x {
				return fmt.Sprintf("param#%d(%s)", i, namedTypeName(x.Type()))
			}
		}
	case *ssa.UnOp:
		if addr, ok := isLoad(x); ok {
			if fa, ok := addr.(*ssa.FieldAddr); ok {
				return "*" + fieldKeyOf(fa)
			}
			if _, ok := addr.(*ssa.IndexAddr); ok {
				return "*elem(" + namedTypeName(x.Type()) + ")"
			}
		}
	case *ssa.Call:
		return c.calleeName(x) + "()"
	case *ssa.Phi:
		return "phi(" + namedTypeName(x.Type()) + ")"
	}
	return namedTypeName(v.Type())
}

// watchRegs: the `txn.watches[x.watch] = struct{}{}` sites of fn.
func watchRegs(c *Ctx, fn *ssa.Function) []watchReg {
	var out []watchReg
	for _, ia := range allInstrs(fn) {
		mu, ok := ia.In.(*ssa.MapUpdate)
		if !ok {
			continue
		}
		if _, ok := loadOfField(mu.Map, "Txn", "watches"); !ok {
			continue
		}
		src, ok := watchLoadOf(mu.Key)
		if !ok {
			continue
		}
		wr := watchReg{mu: mu, src: src, eff: mu, desc: srcDesc(c, fn, src)}
		// the `if x.watch != nil {` guard: effective point is the If
		b := mu.Block()
		if len(b.Preds) == 1 {
			if f, ok := edgeFactOn(b.Preds[0], b); ok && f.Val {
				if bo, ok := f.Cond.(*ssa.BinOp); ok && bo.Op == token.NEQ && (isNilConst(bo.Y) || isNilConst(bo.X)) {
					w := bo.X
					if isNilConst(bo.X) {
						w = bo.Y
					}
					if s2, ok := watchLoadOf(w); ok && s2 == src {
						p := b.Preds[0]
						wr.eff = p.Instrs[len(p.Instrs)-1]
					}
				}
			}
		}
		out = append(out, wr)
	}
	return out
}

func ruleWatchPair(c *Ctx, r *Reporter) {
	nSites := 0
	for _, fn := range c.Funcs {
		if fn.Package() == nil || shortPkg(fn.Package().Pkg.Path()) != "part" {
			continue
		}
		if n := c.fnName(fn); n == "part.(header).clone" || n == "part.(header).promote" {
			continue // the constructors themselves; their call sites are the replacement sites
		}
		regs := watchRegs(c, fn)
		type site struct {
			in   ssa.Instruction
			src  ssa.Value // source node
			copy ssa.Value // the new node (header pointer or alloc)
			kind string
		}
		var sites []site
		for _, ia := range allInstrs(fn) {
			switch x := ia.In.(type) {
			case *ssa.Call:
				if f := staticCallee(x); f != nil {
					n := c.fnName(f)
					if (n == "part.(header).clone" || n == "part.(header).promote") && len(x.Call.Args) > 0 {
						sites = append(sites, site{x, headerRoot(x.Call.Args[0]), x, f.Name()})
					}
				}
			case *ssa.Store:
				// &nodeN{header: *x}
				fa, ok := x.Addr.(*ssa.FieldAddr)
				if !ok {
					continue
				}
				if _, f, _ := fieldOf(fa); f != "header" {
					continue
				}
				a, ok := fa.X.(*ssa.Alloc)
				if !ok || !strings.HasPrefix(namedTypeName(a.Type()), "node") {
					continue
				}
				if p, ok := isLoad(x.Val); ok {
					sites = append(sites, site{x, headerRoot(p), a, "literal " + namedTypeName(a.Type())})
				}
			}
		}
		ord := map[string]int{}
		for _, s := range sites {
			nSites++
			base := fmt.Sprintf("%s|%s of %s", c.fnName(fn), s.kind, srcDesc(c, fn, s.src))
			ord[base]++
			key := base
			if ord[base] > 1 {
				key = fmt.Sprintf("%s~%d", base, ord[base])
			}
			pos := c.posStr(instrPos(s.in))
			// retain: copy.watch = src.watch after the site
			retained := false
			var stamped ssa.Instruction
			for _, ia := range allInstrs(fn) {
				switch x := ia.In.(type) {
				case *ssa.Store:
					fa, ok := x.Addr.(*ssa.FieldAddr)
					if !ok {
						continue
					}
					_, f, _ := fieldOf(fa)
					if f == "watch" && headerRoot(fa.X) == s.copy {
						if src, ok := watchLoadOf(x.Val); ok && src == s.src && c.instrPostDominates(x, s.in) {
							retained = true
						}
					}
					if f == "txnID" && headerRoot(fa.X) == s.copy {
						stamped = x
					}
				case *ssa.Call:
					if f := staticCallee(x); f != nil && f.Name() == "setTxnID" && len(x.Call.Args) > 0 && headerRoot(x.Call.Args[0]) == s.copy {
						stamped = x
					}
				}
			}
			registered := false
			for _, wr := range regs {
				if wr.src != s.src {
					continue
				}
				if instrDominates(wr.eff, s.in) || c.instrPostDominates(wr.eff, s.in) {
					registered = true
				}
			}
			switch {
			case retained && stamped != nil:
				r.bad(key, pos, "the copy keeps the source node's watch channel but is stamped with the current txnID (at "+c.posStr(instrPos(stamped))+"): later in-place mutation of the copy will never queue that channel, so watchers of the prefix are not woken")
			case retained:
				r.ok(key, pos, "the copy retains the source's watch channel (and is not marked as owned)")
			case registered:
				r.ok(key, pos, "the source's watch channel is queued in txn.watches on every path through the site")
			default:
				r.bad(key, pos, "a node is replaced by a copy whose watch channel is new (or nil) and the old channel is neither retained nor queued for closing: watchers of the old node are never notified")
			}
		}
	}
	if nSites == 0 {
		r.anchorMissing("node replacement sites in package part")
	}
}

// expected registrations per function: source description -> count
var expectedRegs = map[string]map[string]int{
	"part.(Txn).cloneNode":   {"param#1(header)": 1},
	"part.(Txn).modify":      {"phi(header)": 1},
	"part.(Txn).delete":      {"leaf": 1, "param#1(header)": 2, "*part.deleteParent.node": 2},
	"part.(Txn).removeChild": {"param#1(header)": 2},
}

func ruleWatchReg(c *Ctx, r *Reporter) {
	for fnName, exp := range expectedRegs {
		var fn *ssa.Function
		for _, f := range c.Funcs {
			if c.fnName(f) == fnName {
				fn = f
			}
		}
		if fn == nil {
			r.anchorMissing(fnName)
			continue
		}
		got := map[string]int{}
		var first = map[string]ssa.Instruction{}
		for _, wr := range watchRegs(c, fn) {
			d := wr.desc
			if strings.HasPrefix(d, "part.(header).getLeaf") || namedTypeName(wr.src.Type()) == "leaf" {
				d = "leaf"
			}
			got[d]++
			if first[d] == nil {
				first[d] = wr.mu
			}
		}
		var keys []string
		for k := range exp {
			keys = append(keys, k)
		}
		for k := range got {
			if _, ok := exp[k]; !ok {
				keys = append(keys, k)
			}
		}
		sort.Strings(keys)
		for _, k := range keys {
			key := fmt.Sprintf("%s|watches[%s.watch]", fnName, k)
			pos := c.posStr(fn.Pos())
			if first[k] != nil {
				pos = c.posStr(instrPos(first[k]))
			}
			if got[k] >= exp[k] {
				r.ok(key, pos, fmt.Sprintf("%d registration(s) present (frozen minimum %d)", got[k], exp[k]))
			} else {
				r.bad(key, pos, fmt.Sprintf("only %d of the %d registrations of this node's watch channel remain: a node that is dropped or replaced on one path no longer has its channel queued, so its watchers are never woken", got[k], exp[k]))
			}
		}
	}
}

func ruleNotifyAll(c *Ctx, r *Reporter) {
	notify := c.Func("part", "Txn", "Notify")
	if notify == nil {
		r.anchorMissing("part.(Txn).Notify")
		return
	}
	// (1) range over txn.watches closing each key, no other exit from the loop
	okRange := false
	var rangePos token.Pos = notify.Pos()
	for _, ia := range allInstrs(notify) {
		rg, ok := ia.In.(*ssa.Range)
		if !ok {
			continue
		}
		if _, ok := loadOfField(rg.X, "Txn", "watches"); !ok {
			continue
		}
		rangePos = rg.Pos()
		// find the Next and body
		for _, ib := range allInstrs(notify) {
			nx, ok := ib.In.(*ssa.Next)
			if !ok || nx.Iter != ssa.Value(rg) {
				continue
			}
			hdr := nx.Block()
			iff, ok := hdr.Instrs[len(hdr.Instrs)-1].(*ssa.If)
			if !ok {
				continue
			}
			body := hdr.Succs[0]
			_ = iff
			closes := false
			for _, in := range body.Instrs {
				if call, ok := in.(*ssa.Call); ok {
					if b, ok := call.Call.Value.(*ssa.Builtin); ok && b.Name() == "close" {
						if ex, ok := call.Call.Args[0].(*ssa.Extract); ok && ex.Tuple == ssa.Value(nx) && ex.Index == 1 {
							closes = true
						}
					}
				}
			}
			if closes && len(body.Succs) == 1 && body.Succs[0] == hdr && hdr.Dominates(body) {
				// the range loop must be entered unconditionally
				if rg.Block() == notify.Blocks[0] || rg.Block().Dominates(returnsOf(notify)[0].Block()) {
					okRange = true
				}
			}
		}
	}
	r.check(okRange, "part.(Txn).Notify|close every queued channel", c.posStr(rangePos),
		"Notify ranges over txn.watches unconditionally and closes each key; the loop body has no other exit",
		"Notify does not close every channel queued in txn.watches (conditional loop, early exit, or key not closed)")
	// (2) root channel closed exactly under dirty (&& != nil)
	okRoot := false
	var rootPos token.Pos = notify.Pos()
	for _, call := range c.callsNamed(notify, "builtin.close") {
		if _, ok := loadOfField(call.Common().Args[0], "Txn", "rootWatch"); !ok {
			continue
		}
		rootPos = call.Pos()
		good := true
		sawDirty := false
		for _, f := range factsAt(call.Block()) {
			cond, val := stripNot(f.Cond, f.Val)
			if _, ok := loadOfField(cond, "Txn", "dirty"); ok && val {
				sawDirty = true
				continue
			}
			if b, ok := cond.(*ssa.BinOp); ok && b.Op == token.NEQ && isNilConst(b.Y) {
				if _, ok := loadOfField(b.X, "Txn", "rootWatch"); ok && val {
					continue
				}
			}
			if ex, ok := cond.(*ssa.Extract); ok {
				if _, ok := ex.Tuple.(*ssa.Next); ok {
					continue // the range loop over txn.watches has finished
				}
			}
			// any other dominating condition restricts when the root channel is closed
			good = false
		}
		if good && sawDirty {
			okRoot = true
		}
	}
	r.check(okRoot, "part.(Txn).Notify|root channel iff dirty", c.posStr(rootPos),
		"the root watch channel is closed exactly when the transaction is dirty",
		"the root watch channel is not closed under exactly `txn.dirty` (missing, or under an additional/different condition): table-wide watchers miss a change or wake without one")
	// (3) Commit: new root channel iff dirty
	if commit := c.Func("part", "Txn", "Commit"); commit != nil {
		good := false
		var pos token.Pos = commit.Pos()
		for _, ia := range allInstrs(commit) {
			st, ok := ia.In.(*ssa.Store)
			if !ok {
				continue
			}
			fa, ok := st.Addr.(*ssa.FieldAddr)
			if !ok {
				continue
			}
			if tn, f, _ := fieldOf(fa); tn != "Tree" || f != "rootWatch" {
				continue
			}
			pos = st.Pos()
			if phi, ok := st.Val.(*ssa.Phi); ok && len(phi.Edges) == 2 {
				mk, ld := 0, 0
				for i, e := range phi.Edges {
					pred := phi.Block().Preds[i]
					dirtyTrue := false
					for _, f := range append(factsAt(pred), func() []edgeFact {
						if f, ok := edgeFactOn(pred, phi.Block()); ok {
							return []edgeFact{f}
						}
						return nil
					}()...) {
						cond, val := stripNot(f.Cond, f.Val)
						if _, ok := loadOfField(cond, "Txn", "dirty"); ok && val {
							dirtyTrue = true
						}
					}
					if _, ok := e.(*ssa.MakeChan); ok && dirtyTrue {
						mk++
					}
					if _, ok := loadOfField(e, "Txn", "rootWatch"); ok && !dirtyTrue {
						ld++
					}
				}
				good = mk == 1 && ld == 1
			}
		}
		r.check(good, "part.(Txn).Commit|new root channel iff dirty", c.posStr(pos),
			"the committed tree gets a fresh root channel exactly when the transaction changed something, otherwise it keeps the old one",
			"the committed tree's root channel is not (fresh iff dirty): either an unchanged tree gets a channel nobody will close together with the old, or a changed tree keeps a channel that Notify closes")
	} else {
		r.anchorMissing("part.(Txn).Commit")
	}
	// (4) dirty=true dominates replacement sites and registrations in modify/delete, and calls of cloneNode/removeChild
	for _, name := range []string{"modify", "delete"} {
		fn := c.Func("part", "Txn", name)
		if fn == nil {
			r.anchorMissing("part.(Txn)." + name)
			continue
		}
		var dirty []*ssa.Store
		for _, ia := range allInstrs(fn) {
			if st, ok := ia.In.(*ssa.Store); ok && isFieldAddrOf(st.Addr, "Txn", "dirty") {
				if cst, ok := st.Val.(*ssa.Const); ok && cst.Value != nil && cst.Value.String() == "true" {
					dirty = append(dirty, st)
				}
			}
		}
		bad := ""
		var badPos token.Pos
		for _, ia := range allInstrs(fn) {
			interesting := false
			switch x := ia.In.(type) {
			case *ssa.MapUpdate:
				if _, ok := loadOfField(x.Map, "Txn", "watches"); ok {
					interesting = true
				}
			case *ssa.Call:
				if f := staticCallee(x); f != nil {
					switch c.fnName(f) {
					case "part.(Txn).cloneNode", "part.(Txn).removeChild", "part.(header).clone", "part.(header).promote", "part.newLeaf":
						interesting = true
					}
				}
			}
			if !interesting {
				continue
			}
			dom := false
			for _, d := range dirty {
				if instrDominates(d, ia.In) {
					dom = true
				}
			}
			if !dom {
				bad = ia.In.String()
				badPos = instrPos(ia.In)
			}
		}
		key := "part.(Txn)." + name + "|dirty before any change"
		if bad == "" && len(dirty) > 0 {
			r.ok(key, c.posStr(dirty[0].Pos()), "txn.dirty = true dominates every node replacement and watch registration")
		} else {
			r.bad(key, c.posStr(badPos), "a node is replaced or a watch queued on a path where txn.dirty was not set: Notify will not close the root channel for that change ("+bad+")")
		}
	}
	// (4b) delete: dirty is set only on paths that remove a key
	if fn := c.Func("part", "Txn", "delete"); fn != nil {
		var dirty *ssa.Store
		for _, ia := range allInstrs(fn) {
			if st, ok := ia.In.(*ssa.Store); ok && isFieldAddrOf(st.Addr, "Txn", "dirty") {
				dirty = st
			}
		}
		bad := ssa.Instruction(nil)
		if dirty != nil {
			for _, ret := range returnsOf(fn) {
				if !instrReaches(dirty, ret) {
					continue
				}
				if !alwaysTrue(ret.Results[1], map[ssa.Value]bool{}) {
					bad = ret
				}
			}
		}
		if dirty == nil {
			r.bad("part.(Txn).delete|dirty only when a key is removed", c.posStr(fn.Pos()), "delete never marks the transaction dirty")
		} else if bad != nil {
			r.bad("part.(Txn).delete|dirty only when a key is removed", c.posStr(instrPos(bad)), "delete marks the transaction dirty on a path that returns hadOld=false: deleting an absent key closes and replaces the root watch channel (spurious wake-up of every table-wide watcher)")
		} else {
			r.ok("part.(Txn).delete|dirty only when a key is removed", c.posStr(instrPos(dirty)), "every return reachable after txn.dirty = true reports hadOld=true")
		}
	}
	// (5) root-only mode hands out the root channel
	for _, name := range []string{"InsertWatch", "ModifyWatch"} {
		fn := c.Func("part", "Txn", name)
		if fn == nil {
			r.anchorMissing("part.(Txn)." + name)
			continue
		}
		good := false
		for _, ret := range returnsOf(fn) {
			for _, res := range ret.Results {
				if !isRecvChan(res.Type()) {
					continue
				}
				if phi, ok := stripConv(res).(*ssa.Phi); ok {
					for i, e := range phi.Edges {
						if _, ok := loadOfField(stripConv(e), "Txn", "rootWatch"); ok {
							pred := phi.Block().Preds[i]
							fs := factsAt(pred)
							if f, ok := edgeFactOn(pred, phi.Block()); ok {
								fs = append(fs, f)
							}
							for _, f := range fs {
								if call, ok := f.Cond.(*ssa.Call); ok && f.Val {
									if sf := staticCallee(call); sf != nil && sf.Name() == "rootOnlyWatch" {
										good = true
									}
								}
							}
						}
					}
				}
			}
		}
		r.check(good, "part.(Txn)."+name+"|root-only returns root channel", c.posStr(fn.Pos()),
			"in root-only mode the returned watch is the transaction's root channel",
			"in root-only mode (revision/graveyard/Map/Set trees) the per-key watch is not replaced by the root channel: callers get a nil channel")
	}
	// (6) lpm index: every commit installs a fresh channel and hands back the notifier that closes
	// the old one. If either is made conditional on a flag of the index transaction, that flag
	// must be set on every path that changes the trie (a replaced object changes query results too).
	if fn := c.Func("statedb", "lpmIndexTxn", "commit"); fn != nil {
		var stores []*ssa.Store
		for _, ia := range allInstrs(fn) {
			if st, ok := ia.In.(*ssa.Store); ok && isFieldAddrOf(st.Addr, "lpmIndex", "watch") {
				stores = append(stores, st)
			}
		}
		guard := "" // name of the lpmIndexTxn flag the channel replacement depends on
		bad := ""
		var badPos ssa.Instruction
		for _, ret := range returnsOf(fn) {
			// the last store to the new index' watch field on the way to this return
			var last *ssa.Store
			for _, st := range stores {
				if !instrDominates(st, ret) {
					if instrReaches(st, ret) {
						bad, badPos = "the watch channel of the committed LPM index depends on the path taken in a way the analysis cannot follow", st
					}
					continue
				}
				if last == nil || instrDominates(last, st) {
					last = st
				}
			}
			fresh := false
			if last != nil {
				_, fresh = last.Val.(*ssa.MakeChan)
			}
			notifier := len(ret.Results) == 2 && !isNilConst(ret.Results[1])
			if fresh && notifier {
				continue
			}
			// conditional: find the flag
			g := ""
			for _, f := range factsAt(ret.Block()) {
				cond, val := stripNot(f.Cond, f.Val)
				if addr, ok := isLoad(cond); ok && !val {
					if fa, ok := addr.(*ssa.FieldAddr); ok {
						if tn, fname, ok := fieldOf(fa); ok && tn == "lpmIndexTxn" {
							g = fname
						}
					}
				}
			}
			if g == "" {
				badPos = ret
				if !fresh {
					bad = "a commit of the LPM index keeps the previous watch channel (or installs none): queries on the new version wait on a channel that notify() closes/closed, or later changes never wake them"
				} else {
					bad = "a commit of the LPM index returns no notifier: the channel handed out with the previous version is never closed"
				}
				continue
			}
			guard = g
		}
		if bad == "" && guard != "" {
			// flag discipline: every trie mutation in the index transaction is accompanied by flag=true
			n := 0
			for _, m := range c.Funcs {
				if recvTypeName(m) != "lpmIndexTxn" || m.Package() == nil || shortPkg(m.Package().Pkg.Path()) != "statedb" {
					continue
				}
				var sets []*ssa.Store
				for _, ia := range allInstrs(m) {
					if st, ok := ia.In.(*ssa.Store); ok && isFieldAddrOf(st.Addr, "lpmIndexTxn", guard) {
						if cst, ok := st.Val.(*ssa.Const); ok && cst.Value != nil && cst.Value.String() == "true" {
							sets = append(sets, st)
						}
					}
				}
				for _, ia := range allInstrs(m) {
					call, ok := ia.In.(*ssa.Call)
					if !ok {
						continue
					}
					cn := c.calleeName(call)
					if cn != "lpm.(Txn).Insert" && cn != "lpm.(Txn).Delete" {
						continue
					}
					n++
					marked := false
					for _, st := range sets {
						if instrDominates(st, call) || c.instrPostDominates(st, call) {
							marked = true
						}
					}
					if !marked && bad == "" {
						bad = "the LPM index keeps its watch channel unless lpmIndexTxn." + guard + " is set, but this trie mutation can happen without setting it (e.g. an object replaced under the same prefix): queries on the index are not woken although their result changed"
						badPos = call
					}
				}
			}
			if n == 0 && bad == "" {
				bad, badPos = "no trie mutation found in lpmIndexTxn methods", nil
			}
		}
		if bad == "" {
			msg := "every commit gives the LPM index a fresh watch channel and returns the notifier that closes the old one"
			if guard != "" {
				msg = "the channel is replaced under lpmIndexTxn." + guard + ", which every trie mutation sets"
			}
			r.okP([]string{"C06"}, "statedb.(lpmIndexTxn).commit|fresh index channel", c.posStr(fn.Pos()), msg)
		} else {
			pos := c.posStr(fn.Pos())
			if badPos != nil {
				pos = c.posStr(instrPos(badPos))
			}
			r.badP([]string{"C06"}, "statedb.(lpmIndexTxn).commit|fresh index channel", pos, bad)
		}
	} else {
		r.anchorMissing("statedb.(lpmIndexTxn).commit")
	}
}

func isRecvChan(t types.Type) bool {
	ch, ok := t.Underlying().(*types.Chan)
	return ok && ch != nil
}

// ---- WATCH-ORIGIN ----

type chanOrigin struct {
	kinds map[string]token.Pos
}

func (c *Ctx) chanOriginOf(fn *ssa.Function, v ssa.Value, seen map[ssa.Value]bool, out map[string]token.Pos, depth int) {
	if v == nil || seen[v] || depth > 12 {
		return
	}
	seen[v] = true
	v = derefLocal(v)
	switch x := v.(type) {
	case *ssa.ChangeType:
		c.chanOriginOf(fn, x.X, seen, out, depth)
	case *ssa.Phi:
		for _, e := range x.Edges {
			c.chanOriginOf(fn, e, seen, out, depth)
		}
	case *ssa.MakeChan:
		out["fresh"] = x.Pos()
	case *ssa.Const:
		out["nil"] = x.Pos()
	case *ssa.Global:
		out["global:"+x.Name()] = x.Pos()
	case *ssa.Parameter:
		idx := -1
		for i, q := range fn.Params {
			if q == x {
				idx = i
			}
		}
		out[fmt.Sprintf("param#%d", idx)] = x.Pos()
	case *ssa.FreeVar:
		out["captured"] = x.Pos()
	case *ssa.UnOp:
		if addr, ok := isLoad(x); ok {
			switch a := addr.(type) {
			case *ssa.FieldAddr:
				out["field:"+fieldKeyOf(a)] = x.Pos()
			case *ssa.Global:
				out["global:"+a.Name()] = x.Pos()
			case *ssa.Alloc:
				for _, st := range storesTo(fn, a) {
					c.chanOriginOf(fn, st.Val, seen, out, depth)
				}
			default:
				out["memory"] = x.Pos()
			}
		}
	case *ssa.Field:
		out["field:"+structFieldKey(x)] = x.Pos()
	case *ssa.Extract:
		if call, ok := x.Tuple.(*ssa.Call); ok {
			c.chanOriginCall(call, x.Index, out, depth)
			return
		}
		out["tuple"] = x.Pos()
	case *ssa.Call:
		c.chanOriginCall(x, 0, out, depth)
	default:
		out["unknown"] = v.Pos()
	}
}

func (c *Ctx) chanOriginCall(call *ssa.Call, idx int, out map[string]token.Pos, depth int) {
	com := call.Common()
	if com.IsInvoke() {
		out["iface:"+typePkgNameFull(com.Value.Type())+"."+com.Method.Name()] = call.Pos()
		return
	}
	f := staticCallee(call)
	if f == nil {
		out["dynamic"] = call.Pos()
		return
	}
	if !c.inModule(f) {
		out["ext:"+extFnName(f)] = call.Pos()
		return
	}
	// recurse into module function returns
	for _, ret := range returnsOf(f) {
		if idx < len(ret.Results) {
			sub := map[string]token.Pos{}
			c.chanOriginOf(f, ret.Results[idx], map[ssa.Value]bool{}, sub, depth+1)
			for k, p := range sub {
				if strings.HasPrefix(k, "param#") {
					// map the parameter back to the actual argument
					var i int
					fmt.Sscanf(k, "param#%d", &i)
					if i >= 0 && i < len(com.Args) {
						c.chanOriginOf(call.Parent(), com.Args[i], map[ssa.Value]bool{}, out, depth+1)
					} else {
						out["param-of:"+c.fnName(f)] = p
					}
					continue
				}
				out[k] = p
			}
		}
	}
}

func ruleWatchOrigin(c *Ctx, r *Reporter) {
	exempt := map[string]string{
		"statedb.(genTable).Initialized":   "by contract returns the pre-closed channel when initialized",
		"statedb.(changeIterator).Next":    "by contract returns the pre-closed channel when changes are pending",
		"statedb.(changeIterator).nextAny": "forwards Next",
	}
	legal := func(k string) bool {
		switch {
		case k == "field:part.header.watch", k == "field:part.Txn.rootWatch", k == "field:part.Tree.rootWatch",
			k == "field:statedb.lpmIndex.watch", k == "nil":
			return true
		case strings.HasPrefix(k, "iface:statedb.tableIndexReader."), strings.HasPrefix(k, "iface:statedb.tableIndexTxn."),
			strings.HasPrefix(k, "iface:statedb.tableIndex."), strings.HasPrefix(k, "iface:part.Ops."):
			return true
		case strings.HasPrefix(k, "iface:statedb.Table.") || strings.HasPrefix(k, "iface:statedb.RWTable."):
			return true
		}
		return false
	}
	n := 0
	for _, fn := range c.Funcs {
		if fn.Parent() != nil || fn.Package() == nil {
			continue
		}
		pk := shortPkg(fn.Package().Pkg.Path())
		if pk != "statedb" && pk != "part" {
			continue
		}
		res := fn.Signature.Results()
		ci := -1
		for i := 0; i < res.Len(); i++ {
			if ch, ok := res.At(i).Type().Underlying().(*types.Chan); ok {
				if st, ok := ch.Elem().Underlying().(*types.Struct); ok && st.NumFields() == 0 {
					ci = i
				}
			}
		}
		if ci < 0 {
			continue
		}
		name := c.fnName(fn)
		// only query paths: methods of tables, index readers, trees, and the part helpers
		rt := recvTypeName(fn)
		isQuery := false
		switch rt {
		case "genTable", "AnyTable", "partIndex", "partIndexTxn", "lpmIndex", "lpmIndexTxn", "Tree", "Txn", "changeIterator":
			isQuery = true
		case "":
			isQuery = fn.Name() == "partGet" || fn.Name() == "partList" || fn.Name() == "partPrefix" || fn.Name() == "search" || fn.Name() == "prefixSearch"
		}
		if !isQuery {
			continue
		}
		n++
		key := name + "|returned watch"
		if why, ok := exempt[name]; ok {
			r.ok(key, c.posStr(fn.Pos()), "exempt: "+why)
			continue
		}
		origins := map[string]token.Pos{}
		for _, ret := range returnsOf(fn) {
			if ci < len(ret.Results) {
				c.chanOriginOf(fn, ret.Results[ci], map[ssa.Value]bool{}, origins, 0)
			}
		}
		var bad []string
		var badPos token.Pos
		var all []string
		for k, p := range origins {
			all = append(all, k)
			if strings.HasPrefix(k, "param#") && rt == "" {
				continue // helper: the caller's argument is checked at the call site through recursion
			}
			if !legal(k) {
				bad = append(bad, k)
				badPos = p
			}
		}
		sort.Strings(all)
		sort.Strings(bad)
		if len(bad) == 0 {
			r.ok(key, c.posStr(fn.Pos()), "origins: "+strings.Join(all, ", "))
		} else {
			r.bad(key, c.posStr(badPos), "the watch channel handed out does not (only) originate from the queried index: "+strings.Join(bad, ", ")+" - a fresh channel is never closed (missed change), the pre-closed channel is 'already closed when handed out'")
		}
		// same-call pairing for the genTable/AnyTable ...Watch methods
		if (rt == "genTable" || rt == "AnyTable") && strings.HasSuffix(fn.Name(), "Watch") && fn.Name() != "InsertWatch" {
			for _, ret := range returnsOf(fn) {
				ex, ok := stripConv(ret.Results[ci]).(*ssa.Extract)
				pk := name + "|watch and result from the same reader call"
				if !ok {
					r.bad(pk, c.posStr(instrPos(ret)), "the returned watch channel is not the channel result of the index reader call")
					continue
				}
				// some other result must derive from the same tuple
				same := false
				for i, rv := range ret.Results {
					if i == ci {
						continue
					}
					if derivesFromTuple(rv, ex.Tuple, map[ssa.Value]bool{}, 0) {
						same = true
					}
				}
				r.check(same, pk, c.posStr(instrPos(ret)), "the channel and the objects come from one reader call", "the returned watch channel and the returned objects come from different reader calls: the channel may belong to another key/index")
			}
		}
	}
	if n < 20 {
		r.undecided("query-functions", "-", fmt.Sprintf("expected at least 20 channel-returning query functions, found %d", n))
	}
}

func derivesFromTuple(v ssa.Value, tuple ssa.Value, seen map[ssa.Value]bool, depth int) bool {
	if v == nil || seen[v] || depth > 10 {
		return false
	}
	seen[v] = true
	switch x := v.(type) {
	case *ssa.Extract:
		if x.Tuple == tuple {
			return true
		}
	case *ssa.Phi:
		for _, e := range x.Edges {
			if derivesFromTuple(e, tuple, seen, depth+1) {
				return true
			}
		}
	case *ssa.Call:
		for _, a := range x.Call.Args {
			if derivesFromTuple(a, tuple, seen, depth+1) {
				return true
			}
		}
	case *ssa.MakeClosure:
		for _, b := range x.Bindings {
			if derivesFromTuple(b, tuple, seen, depth+1) {
				return true
			}
			// captured variable cell: look at what was stored into it
			if a, ok := b.(*ssa.Alloc); ok {
				for _, st := range storesTo(a.Parent(), a) {
					if derivesFromTuple(st.Val, tuple, seen, depth+1) {
						return true
					}
				}
			}
		}
	case *ssa.ChangeType:
		return derivesFromTuple(x.X, tuple, seen, depth+1)
	case *ssa.MakeInterface:
		return derivesFromTuple(x.X, tuple, seen, depth+1)
	case *ssa.TypeAssert:
		return derivesFromTuple(x.X, tuple, seen, depth+1)
	case *ssa.Field:
		return derivesFromTuple(x.X, tuple, seen, depth+1)
	case *ssa.UnOp:
		if addr, ok := isLoad(x); ok {
			if fa, ok := addr.(*ssa.FieldAddr); ok {
				return derivesFromTuple(fa.X, tuple, seen, depth+1)
			}
			if a, ok := addr.(*ssa.Alloc); ok {
				for _, st := range storesTo(a.Parent(), a) {
					if derivesFromTuple(st.Val, tuple, seen, depth+1) {
						return true
					}
				}
			}
		}
	case *ssa.Alloc:
		for _, st := range storesTo(x.Parent(), x) {
			if derivesFromTuple(st.Val, tuple, seen, depth+1) {
				return true
			}
		}
	}
	return false
}

func init() {
	register(&Rule{
		ID: "TXN-RESET", Props: []string{"C11", "C12", "C06"}, Floor: 9,
		Doc: "Tree.Txn re-initialises every per-transaction field of a recycled part.Txn (root, oldRoot, rootWatch, size, prevTxn, txnID, opts assigned from the tree; dirty=false; watches cleared): nothing queued or flagged by an earlier, possibly abandoned, transaction leaks into the next one",
		Run: ruleTxnReset,
	})
	register(&Rule{
		ID: "NODE-CONVERT", Props: []string{"C11", "C03", "C04", "C17"}, Floor: 6,
		Doc: "every node built from another node's header (promotion in header.promote, demotion in removeChild) takes over the source's leaf, sets its kind and is stamped with a txnID",
		Run: ruleNodeConvert,
	})
}

func ruleTxnReset(c *Ctx, r *Reporter) {
	fn := c.Func("part", "Tree", "Txn")
	if fn == nil {
		r.anchorMissing("part.(Tree).Txn")
		return
	}
	// the Txn struct's fields
	var st *types.Struct
	for _, p := range c.Pkgs {
		if shortPkg(p.PkgPath) == "part" {
			if o := p.Types.Scope().Lookup("Txn"); o != nil {
				st, _ = o.Type().Underlying().(*types.Struct)
			}
		}
	}
	if st == nil {
		r.anchorMissing("type part.Txn")
		return
	}
	scratch := map[string]string{"deleteParentsCache": "capacity-only scratch slice, re-sliced to length 1 on every use"}
	// the recycled transaction: result of prevTxn.Swap(nil)
	var recycled ssa.Value
	for _, call := range c.callsNamed(fn, "sync/atomic.(Pointer).Swap") {
		if v, ok := call.(ssa.Value); ok {
			recycled = v
		}
	}
	if recycled == nil {
		r.anchorMissing("prevTxn.Swap(nil) in Tree.Txn")
		return
	}
	isRecycled := func(v ssa.Value) bool {
		if v == recycled {
			return true
		}
		if phi, ok := v.(*ssa.Phi); ok {
			for _, e := range phi.Edges {
				if e == recycled {
					return true
				}
			}
		}
		return false
	}
	reset := map[string]string{}
	// a reset counts only if nothing but the `prevTxn != nil` test guards it
	unconditional := func(in ssa.Instruction) bool {
		for _, f := range factsAt(in.Block()) {
			if bo, ok := f.Cond.(*ssa.BinOp); ok && isNilConst(bo.Y) && bo.X == recycled {
				continue
			}
			return false
		}
		return true
	}
	for _, ia := range allInstrs(fn) {
		switch x := ia.In.(type) {
		case *ssa.Store:
			if fa, ok := x.Addr.(*ssa.FieldAddr); ok && isRecycled(fa.X) && unconditional(x) {
				_, f, _ := fieldOf(fa)
				reset[f] = "assigned"
			}
		case *ssa.Call:
			if b, ok := x.Call.Value.(*ssa.Builtin); ok && b.Name() == "clear" {
				if addr, ok := isLoad(x.Call.Args[0]); ok {
					if fa, ok := addr.(*ssa.FieldAddr); ok && isRecycled(fa.X) && unconditional(x) {
						_, f, _ := fieldOf(fa)
						reset[f] = "cleared"
					}
				}
			}
		}
	}
	for i := 0; i < st.NumFields(); i++ {
		f := st.Field(i).Name()
		key := "part.(Tree).Txn|reset Txn." + f
		if why, ok := scratch[f]; ok {
			r.ok(key, c.posStr(fn.Pos()), "exempt: "+why)
			continue
		}
		if how, ok := reset[f]; ok {
			r.ok(key, c.posStr(fn.Pos()), "recycled transaction's field is "+how)
		} else {
			r.bad(key, c.posStr(fn.Pos()), "a recycled part.Txn keeps field `"+f+"` from its previous use: state of an earlier (possibly abandoned, never notified) transaction leaks into this one - e.g. stale queued watch channels get closed by an unrelated Notify, or a stale dirty flag closes the root channel without a change")
		}
	}
}

func ruleNodeConvert(c *Ctx, r *Reporter) {
	for _, fnName := range [][3]string{{"part", "header", "promote"}, {"part", "Txn", "removeChild"}} {
		fn := c.Func(fnName[0], fnName[1], fnName[2])
		if fn == nil {
			r.anchorMissing(fnName[0] + ".(" + fnName[1] + ")." + fnName[2])
			continue
		}
		for _, ia := range allInstrs(fn) {
			a, ok := ia.In.(*ssa.Alloc)
			if !ok || !strings.HasPrefix(namedTypeName(a.Type()), "node") {
				continue
			}
			// source: header copied from, or (promote from leaf) prefix taken from the receiver
			var src ssa.Value
			for _, ib := range allInstrs(fn) {
				st, ok := ib.In.(*ssa.Store)
				if !ok {
					continue
				}
				fa, ok := st.Addr.(*ssa.FieldAddr)
				if !ok || fa.X != ssa.Value(a) {
					continue
				}
				if _, f, _ := fieldOf(fa); f == "header" {
					if p, ok := isLoad(st.Val); ok {
						src = headerRoot(p)
					}
				}
			}
			if src == nil {
				if fnName[2] == "promote" {
					src = fn.Params[0] // leaf -> node4: built field by field from the receiver
				} else {
					continue
				}
			}
			var leafOK, kindOK, idOK bool
			for _, ib := range allInstrs(fn) {
				switch x := ib.In.(type) {
				case *ssa.Store:
					fa, ok := x.Addr.(*ssa.FieldAddr)
					if !ok || headerRoot(fa.X) != ssa.Value(a) {
						continue
					}
					_, f, _ := fieldOf(fa)
					switch f {
					case "leaf":
						// value: getLeaf(src) or src.nodeK().leaf
						if call, ok := x.Val.(*ssa.Call); ok {
							if sf := staticCallee(call); sf != nil && sf.Name() == "getLeaf" && headerRoot(call.Call.Args[0]) == src {
								leafOK = true
							}
						}
						if p, ok := isLoad(x.Val); ok {
							if fa2, ok := p.(*ssa.FieldAddr); ok {
								if _, f2, _ := fieldOf(fa2); f2 == "leaf" && headerRoot(fa2.X) == src {
									leafOK = true
								}
							}
						}
					case "txnID":
						idOK = true
					}
				case *ssa.Call:
					if sf := staticCallee(x); sf != nil && len(x.Call.Args) > 0 && headerRoot(x.Call.Args[0]) == ssa.Value(a) {
						switch sf.Name() {
						case "setKind":
							kindOK = true
						case "setTxnID":
							idOK = true
						}
					}
				}
			}
			key := fmt.Sprintf("%s|%s from %s", c.fnName(fn), namedTypeName(a.Type()), srcDesc(c, fn, src))
			var miss []string
			if !leafOK {
				miss = append(miss, "leaf not taken over from the source (the key stored at this node disappears)")
			}
			if !kindOK {
				miss = append(miss, "kind not set")
			}
			if !idOK {
				miss = append(miss, "txnID not set")
			}
			if len(miss) == 0 {
				r.ok(key, c.posStr(a.Pos()), "converted node takes over the source's leaf, sets kind and txnID")
			} else {
				r.bad(key, c.posStr(a.Pos()), "node conversion is incomplete: "+strings.Join(miss, "; "))
			}
		}
	}
}

// alwaysTrue: the boolean value is the constant true on every incoming edge.
func alwaysTrue(v ssa.Value, seen map[ssa.Value]bool) bool {
	if seen[v] {
		return true
	}
	seen[v] = true
	switch x := v.(type) {
	case *ssa.Const:
		return x.Value != nil && x.Value.String() == "true"
	case *ssa.Phi:
		for _, e := range x.Edges {
			if !alwaysTrue(e, seen) {
				return false
			}
		}
		return true
	}
	return false
}
