// sdbcheck decides structural necessary conditions of the statedb properties
// from the source of /repo (type-checked AST, go/ssa, module call graph).
// It never runs statedb code.
package main

import (
	"encoding/json"
	"flag"
	"fmt"
	"os"
	"path/filepath"
	"runtime/debug"
	"sort"
	"strconv"
	"strings"
	"time"
)

var allRules []*Rule
var debugHooks = map[string]func(c *Ctx, arg string){}
var dumpJSONFlag bool

func register(r *Rule) { allRules = append(allRules, r) }

func ruleByID(id string) *Rule {
	for _, r := range allRules {
		if r.ID == id {
			return r
		}
	}
	return nil
}

func rulesFor(pid string) []*Rule {
	var out []*Rule
	for _, r := range allRules {
		if hasProp(r.Props, pid) {
			out = append(out, r)
		}
	}
	sort.Slice(out, func(i, j int) bool { return out[i].ID < out[j].ID })
	return out
}

func usage() {
	fmt.Fprintln(os.Stderr, `usage:
  sdbcheck check <PROPERTY> [--tier quick|thorough] [--repo DIR] [--verif DIR]
  sdbcheck replay <file> [--repo DIR]
  sdbcheck rules                      list rules and the properties they serve
  sdbcheck dump <RULE|all> [--repo DIR] [--bad]   print obligations (development aid)
  sdbcheck selftest [--verif DIR]     run the positive fixtures`)
	os.Exit(2)
}

func main() {
	if len(os.Args) < 2 {
		usage()
	}
	cmd := os.Args[1]
	fs := flag.NewFlagSet(cmd, flag.ExitOnError)
	tier := fs.String("tier", envOr("VERIF_TIER", "quick"), "quick|thorough")
	repo := fs.String("repo", envOr("SDB_REPO", "/repo"), "repository working tree")
	verif := fs.String("verif", envOr("SDB_VERIF", "/verif"), "verification directory")
	onlyBad := fs.Bool("bad", false, "dump: only non-ok obligations")
	noEvidence := fs.Bool("no-evidence", false, "check: do not write evidence/replay files (used for mutant runs)")
	jsonOut := fs.Bool("json", false, "check: print obligations as JSON on stdout")
	var pos []string
	args := os.Args[2:]
	// allow flags after positional
	for len(args) > 0 {
		if strings.HasPrefix(args[0], "-") {
			break
		}
		pos = append(pos, args[0])
		args = args[1:]
	}
	fs.Parse(args)
	pos = append(pos, fs.Args()...)

	defer func() {
		if r := recover(); r != nil {
			fmt.Fprintf(os.Stderr, "sdbcheck: internal error (panic): %v\n%s\n", r, debug.Stack())
			fmt.Printf("CANNOT-ANALYSE: checker panicked: %v\n", r)
			os.Exit(2)
		}
	}()

	switch cmd {
	case "props":
		// machine-readable: what each property's check decides / does not decide, and its rules
		out := map[string]any{}
		for pid, pd := range propDescs {
			var ids []string
			for _, r := range rulesFor(pid) {
				ids = append(ids, r.ID)
			}
			out[pid] = map[string]any{"decides": pd.Decides, "not_decided": pd.NotDecided, "rules": ids}
		}
		b, _ := json.MarshalIndent(out, "", " ")
		fmt.Println(string(b))
	case "rules":
		for _, r := range allRules {
			fmt.Printf("%-22s floor=%-3d props=%s\n    %s\n", r.ID, r.Floor, strings.Join(r.Props, ","), r.Doc)
		}
	case "check":
		if len(pos) != 1 {
			usage()
		}
		os.Exit(runCheck(pos[0], *tier, *repo, *verif, !*noEvidence, *jsonOut))
	case "replay":
		if len(pos) != 1 {
			usage()
		}
		os.Exit(runReplay(pos[0], *repo, *verif))
	case "dump":
		if len(pos) != 1 {
			usage()
		}
		dumpJSONFlag = *jsonOut
		os.Exit(runDump(pos[0], *repo, *onlyBad))
	case "debug":
		c, err := loadRepo(*repo, loadOpts{})
		if err != nil {
			fmt.Println(err)
			os.Exit(2)
		}
		if h := debugHooks[pos[0]]; h != nil && len(pos) > 1 {
			h(c, pos[1])
		}
	case "selftest":
		os.Exit(runSelftest(*verif))
	case "mutants":
		os.Exit(runMutantsCmd(pos, *repo, *verif))
	case "benign":
		os.Exit(runBenignCmd(pos, *repo, *verif))
	default:
		usage()
	}
}

func envOr(k, d string) string {
	if v := os.Getenv(k); v != "" {
		return v
	}
	return d
}

// runRules runs the given rules on c and returns all obligations.
func runRules(c *Ctx, rules []*Rule) *Reporter {
	rep := newReporter(c)
	for _, r := range rules {
		rep.rule = r
		func() {
			defer func() {
				if x := recover(); x != nil {
					rep.add(Undecided, nil, "panic", "-", fmt.Sprintf("rule panicked: %v", x), string(debug.Stack()))
				}
			}()
			r.Run(c, rep)
		}()
	}
	rep.rule = nil
	return rep
}

type checkOutcome struct {
	obs        []Ob // obligations of this property
	failing    []Ob // violations/undecided not covered by known findings
	known      []string
	counts     []ruleCount
	floorFails []string
}

func evaluate(pid string, rep *Reporter, rules []*Rule, kf KnownFile) checkOutcome {
	var out checkOutcome
	perRuleAll := map[string]int{}
	for _, ob := range rep.Obs {
		perRuleAll[ob.Rule]++
		if hasProp(ob.Props, pid) {
			out.obs = append(out.obs, ob)
		}
	}
	sortObs(out.obs)
	for _, r := range rules {
		rc := ruleCount{Rule: r.ID, Doc: r.Doc, Floor: r.Floor}
		for _, ob := range out.obs {
			if ob.Rule != r.ID {
				continue
			}
			rc.Count++
			switch ob.Status {
			case OK:
				rc.OK++
			case Violation:
				rc.Violations++
			case Undecided:
				rc.Undecided++
			}
		}
		out.counts = append(out.counts, rc)
		if perRuleAll[r.ID] < r.Floor {
			out.floorFails = append(out.floorFails, fmt.Sprintf("%s: enumerated %d obligations, floor is %d (a rule that matches fewer sites than confirmed by hand cannot be trusted to have looked)", r.ID, perRuleAll[r.ID], r.Floor))
		}
	}
	for _, ob := range out.obs {
		if ob.Status == OK {
			continue
		}
		if f := kf.match(pid, ob); f != nil {
			out.known = append(out.known, fmt.Sprintf("KNOWN-FINDING: property=%s %s [%s at %s]", pid, f.What, ob.Key, ob.Pos))
			continue
		}
		out.failing = append(out.failing, ob)
	}
	return out
}

func runCheck(pid, tier, repo, verif string, writeFiles, jsonOut bool) int {
	start := time.Now()
	pd, ok := propDescs[pid]
	rules := rulesFor(pid)
	if !ok || len(rules) == 0 {
		fmt.Printf("CANNOT-ANALYSE: no rules registered for property %s\n", pid)
		return 2
	}
	seed, _ := strconv.Atoi(os.Getenv("VERIF_SEED"))
	c, err := loadRepo(repo, loadOpts{})
	if err != nil {
		fmt.Printf("CANNOT-ANALYSE: %v\n", err)
		// A tree that does not load is not a pass. Report it as a violation of the
		// check itself so it can never be mistaken for "held".
		fmt.Printf("VIOLATION property=%s replay=%s\n", pid, "-")
		return 1
	}
	kf, err := loadKnown(verif)
	if err != nil {
		fmt.Printf("CANNOT-ANALYSE: known_findings.json: %v\n", err)
		return 2
	}
	rep := runRules(c, rules)
	out := evaluate(pid, rep, rules, kf)

	configs := []map[string]any{{"config": "default", "packages": len(c.Pkgs), "functions": len(c.Funcs), "obligations": len(out.obs), "failing": len(out.failing)}}
	var extra []string
	var matrix, seedMatrix, benignMatrix any
	if tier == "thorough" {
		extraFail, cfgs, notes := thoroughConfigs(pid, repo, rules, kf)
		configs = append(configs, cfgs...)
		extra = append(extra, notes...)
		out.failing = append(out.failing, extraFail...)
		if writeFiles {
			matrix = runMutantMatrix(pid, repo, verif)
			seedMatrix = runSeedMatrix(pid, repo, verif)
			benignMatrix = runBenignMatrix(pid, repo, verif)
		}
	}

	if jsonOut {
		b, _ := json.MarshalIndent(out.obs, "", " ")
		fmt.Println(string(b))
	}

	fmt.Printf("sdbcheck %s tier=%s repo=%s: %d packages, %d functions, %d rules, %d obligations\n", pid, tier, repo, len(c.Pkgs), len(c.Funcs), len(rules), len(out.obs))
	for _, rc := range out.counts {
		fmt.Printf("  %-22s obligations=%-4d ok=%-4d violations=%d undecided=%d floor=%d\n", rc.Rule, rc.Count, rc.OK, rc.Violations, rc.Undecided, rc.Floor)
	}
	for _, l := range out.known {
		fmt.Println(l)
	}
	exit := 0
	for _, ff := range out.floorFails {
		exit = 1
		ob := Ob{Rule: "FLOOR", Key: "FLOOR|" + ff, Status: Undecided, Msg: ff, Pos: "-"}
		path := "-"
		if writeFiles {
			path = filepath.Join(verif, "replay", replayName(pid, ob))
			writeJSON(path, Replay{Property: pid, Ob: ob, Config: c.Config, Repo: repo, Howto: "sdbcheck replay " + path})
		}
		fmt.Printf("  below floor: %s\n", ff)
		fmt.Printf("VIOLATION property=%s replay=%s\n", pid, path)
	}
	for _, ob := range out.failing {
		exit = 1
		path := "-"
		if writeFiles {
			path = filepath.Join(verif, "replay", replayName(pid, ob))
			doc := ""
			if r := ruleByID(ob.Rule); r != nil {
				doc = r.Doc
			}
			writeJSON(path, Replay{Property: pid, Ob: ob, RuleDoc: doc, Config: c.Config, Repo: repo, Howto: "sdbcheck replay " + path})
		}
		fmt.Printf("  %s %s at %s\n      %s\n", strings.ToUpper(string(ob.Status)), ob.Key, ob.Pos, ob.Msg)
		for _, t := range ob.Trace {
			fmt.Printf("      | %s\n", t)
		}
		fmt.Printf("VIOLATION property=%s replay=%s\n", pid, path)
	}

	if writeFiles {
		// evidence
		distinct := map[string]bool{}
		for _, ob := range out.obs {
			distinct[ob.Key] = true
		}
		var samples []any
		perRule := map[string]int{}
		for _, ob := range out.obs {
			if perRule[ob.Rule] >= 3 || len(samples) >= 24 {
				continue
			}
			perRule[ob.Rule]++
			samples = append(samples, map[string]any{"rule": ob.Rule, "obligation": ob.Key, "at": ob.Pos, "status": ob.Status, "justification": ob.Msg})
		}
		ruleDocs := []string{}
		for _, r := range rules {
			ruleDocs = append(ruleDocs, r.ID+": "+r.Doc)
		}
		cov := map[string]any{
			"explanation":         "Static analysis (no statedb code is executed). DECIDES: " + pd.Decides + " NOT DECIDED (left to dynamic techniques): " + pd.NotDecided,
			"evaluations":         len(out.obs),
			"distinct_nontrivial": len(distinct),
			"rule":                "An obligation is one source construct (write site, call site, return edge, lock region, table row) selected by a rule through type-resolved identity; keyed rule|function|construct. All are non-trivial: each required a decision from the SSA/CFG of the current tree. Distinct = distinct keys.",
			"samples":             samples,
			"rules":               out.counts,
			"rule_statements":     ruleDocs,
			"configurations":      configs,
			"packages_analysed":   pkgPaths(c),
			"functions_analysed":  len(c.Funcs),
			"known_findings":      out.known,
			"notes":               append(rep.Notes, extra...),
			"exhaustive":          false,
		}
		if matrix != nil {
			cov["mutant_matrix"] = matrix
		}
		if seedMatrix != nil {
			cov["seed_matrix"] = seedMatrix
		}
		if benignMatrix != nil {
			cov["benign_matrix"] = benignMatrix
		}
		ev := Evidence{
			PropertyID: pid, Tier: tier, Seed: seed, Level: "other",
			Coverage: cov,
			Assumptions: append([]string{
				"go/types and go/ssa (golang.org/x/tools v0.50.0) model the program faithfully",
				"Go memory model: one atomic pointer store publishes everything reachable from it; sync.Mutex is correct",
				"functions outside the module behave as classified in the frozen T-STDLIB table; other external calls neither block nor mutate their arguments",
				"user callbacks (indexer FromObject, Metrics, Operations, yield functions) are excluded by statement",
				"a pointer passed to a call is written at most during that call",
				"panicking paths discharge obligations",
			}, pd.Assumptions...),
			WallS:      time.Since(start).Seconds(),
			Violations: len(out.failing) + len(out.floorFails),
		}
		if err := writeJSON(filepath.Join(verif, "evidence", pid+".json"), ev); err != nil {
			fmt.Printf("CANNOT-ANALYSE: writing evidence: %v\n", err)
			return 2
		}
	}
	if exit == 0 {
		fmt.Printf("OK property=%s held on everything analysed (%.1fs)\n", pid, time.Since(start).Seconds())
	}
	return exit
}

func pkgPaths(c *Ctx) []string {
	var out []string
	for _, p := range c.Pkgs {
		out = append(out, p.PkgPath)
	}
	return out
}

func runReplay(path, repo, verif string) int {
	b, err := os.ReadFile(path)
	if err != nil {
		fmt.Println(err)
		return 2
	}
	var rp Replay
	if err := json.Unmarshal(b, &rp); err != nil {
		fmt.Println(err)
		return 2
	}
	c, err := loadRepo(repo, loadOpts{})
	if err != nil {
		fmt.Printf("CANNOT-ANALYSE: %v\n", err)
		return 2
	}
	r := ruleByID(rp.Ob.Rule)
	if r == nil {
		fmt.Printf("rule %s: not a rule obligation (floor/anchor failure): re-run `sdbcheck check %s`\n", rp.Ob.Rule, rp.Property)
		return runCheck(rp.Property, "quick", repo, verif, false, false)
	}
	rep := runRules(c, []*Rule{r})
	for _, ob := range rep.Obs {
		if ob.Key == rp.Ob.Key {
			fmt.Printf("%s %s at %s\n    rule: %s\n    %s\n", strings.ToUpper(string(ob.Status)), ob.Key, ob.Pos, r.Doc, ob.Msg)
			for _, t := range ob.Trace {
				fmt.Printf("    | %s\n", t)
			}
			if ob.Status != OK {
				fmt.Printf("VIOLATION property=%s replay=%s\n", rp.Property, path)
				return 1
			}
			return 0
		}
	}
	fmt.Printf("obligation %s no longer present on this tree\n", rp.Ob.Key)
	return 0
}

func runDump(rule, repo string, onlyBad bool) int {
	dumpJSON := dumpJSONFlag
	c, err := loadRepo(repo, loadOpts{})
	if err != nil {
		fmt.Printf("CANNOT-ANALYSE: %v\n", err)
		return 2
	}
	var rules []*Rule
	if rule == "all" {
		rules = allRules
	} else if r := ruleByID(rule); r != nil {
		rules = []*Rule{r}
	} else if len(rulesFor(rule)) > 0 {
		rules = rulesFor(rule)
	} else {
		fmt.Println("no such rule")
		return 2
	}
	rep := runRules(c, rules)
	sortObs(rep.Obs)
	if dumpJSON {
		var sel []Ob
		for _, ob := range rep.Obs {
			if onlyBad && ob.Status == OK {
				continue
			}
			sel = append(sel, ob)
		}
		for _, r := range rules {
			n := 0
			for _, ob := range rep.Obs {
				if ob.Rule == r.ID {
					n++
				}
			}
			if n < r.Floor {
				sel = append(sel, Ob{Rule: r.ID, Key: r.ID + "|below-floor", Status: Undecided, Pos: "-", Msg: fmt.Sprintf("%d obligations, floor %d", n, r.Floor)})
			}
		}
		if sel == nil {
			sel = []Ob{}
		}
		b, _ := json.Marshal(sel)
		fmt.Println(string(b))
		return 0
	}
	bad := 0
	for _, ob := range rep.Obs {
		if ob.Status != OK {
			bad++
		}
		if onlyBad && ob.Status == OK {
			continue
		}
		fmt.Printf("%-9s %-60s %s [%s]\n    %s\n", ob.Status, ob.Key, ob.Pos, strings.Join(ob.Props, ","), ob.Msg)
		for _, t := range ob.Trace {
			fmt.Printf("    | %s\n", t)
		}
	}
	per := map[string]int{}
	for _, ob := range rep.Obs {
		per[ob.Rule]++
	}
	for _, r := range rules {
		flag := ""
		if per[r.ID] < r.Floor {
			flag = "  BELOW FLOOR"
		}
		fmt.Printf("# %s: %d obligations (floor %d)%s\n", r.ID, per[r.ID], r.Floor, flag)
	}
	for _, n := range rep.Notes {
		fmt.Println("# note:", n)
	}
	fmt.Printf("# total %d obligations, %d not ok\n", len(rep.Obs), bad)
	return 0
}

func init() {
	debugHooks["edges"] = func(c *Ctx, arg string) {
		for _, fn := range c.Funcs {
			if c.fnName(fn) != arg {
				continue
			}
			for _, e := range c.CG().Out[fn] {
				callee := e.Ext
				if e.Callee != nil {
					callee = c.fnName(e.Callee)
				}
				fmt.Printf("%s -> %s [%s] at %s\n", arg, callee, e.Kind, c.posStr(instrPos(e.Site)))
			}
		}
	}
}

func init() {
	// debug funcs x: every source function with its number of instructions (blind-spot review)
	debugHooks["funcs"] = func(c *Ctx, arg string) {
		for _, fn := range c.Funcs {
			n := 0
			for _, b := range fn.Blocks {
				n += len(b.Instrs)
			}
			fmt.Printf("%s\t%d\t%s\n", c.fnName(fn), n, c.posStr(fn.Pos()))
		}
	}
}
