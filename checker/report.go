package main

import (
	"crypto/sha1"
	"encoding/json"
	"fmt"
	"os"
	"path/filepath"
	"sort"
	"strings"
)

type Status string

const (
	OK        Status = "ok"
	Violation Status = "violation"
	Undecided Status = "undecided"
)

// Ob is one obligation: a construct of the source that a rule had to decide.
type Ob struct {
	Rule   string   `json:"rule"`
	Key    string   `json:"key"` // rule|function|construct - never a line number
	Props  []string `json:"props"`
	Pos    string   `json:"pos"`
	Status Status   `json:"status"`
	Msg    string   `json:"msg"`
	Trace  []string `json:"trace,omitempty"`
}

// Rule is a checker rule. Run enumerates obligations into the reporter.
type Rule struct {
	ID      string
	Props   []string // properties the rule serves; default tags of its obligations
	Default []string // default tags when they are fewer than Props (obligations tagged individually)
	Floor   int      // minimum number of obligations confirmed by hand on the pinned tree
	Doc     string   // one-line statement of the rule
	Run     func(c *Ctx, r *Reporter)
}

type Reporter struct {
	c    *Ctx
	rule *Rule
	Obs  []Ob
	seen map[string]int
	// Notes are informational lines for the evidence file.
	Notes []string
}

func newReporter(c *Ctx) *Reporter { return &Reporter{c: c, seen: map[string]int{}} }

func (r *Reporter) add(st Status, props []string, key, pos, msg string, trace ...string) {
	if props == nil {
		props = r.rule.Props
		if r.rule.Default != nil {
			props = r.rule.Default
		}
	}
	k := r.rule.ID + "|" + key
	if n := r.seen[k]; n > 0 {
		// same construct enumerated twice (e.g. two identical calls): disambiguate by ordinal
		r.seen[k] = n + 1
		k = fmt.Sprintf("%s#%d", k, n+1)
	} else {
		r.seen[k] = 1
	}
	r.Obs = append(r.Obs, Ob{Rule: r.rule.ID, Key: k, Props: props, Pos: pos, Status: st, Msg: msg, Trace: trace})
}

func (r *Reporter) ok(key, pos, msg string)               { r.add(OK, nil, key, pos, msg) }
func (r *Reporter) bad(key, pos, msg string, t ...string) { r.add(Violation, nil, key, pos, msg, t...) }
func (r *Reporter) undecided(key, pos, msg string, t ...string) {
	r.add(Undecided, nil, key, pos, msg, t...)
}
func (r *Reporter) okP(props []string, key, pos, msg string) { r.add(OK, props, key, pos, msg) }
func (r *Reporter) badP(props []string, key, pos, msg string, t ...string) {
	r.add(Violation, props, key, pos, msg, t...)
}
func (r *Reporter) undecidedP(props []string, key, pos, msg string, t ...string) {
	r.add(Undecided, props, key, pos, msg, t...)
}

// check records ok or violation depending on cond.
func (r *Reporter) check(cond bool, key, pos, okMsg, badMsg string) {
	if cond {
		r.ok(key, pos, okMsg)
	} else {
		r.bad(key, pos, badMsg)
	}
}

func (r *Reporter) note(format string, a ...any) {
	r.Notes = append(r.Notes, r.rule.ID+": "+fmt.Sprintf(format, a...))
}

// anchorMissing reports an unresolved anchor: the slot a rule is built around
// could not be found in the current tree. This fails the check.
func (r *Reporter) anchorMissing(what string) {
	r.add(Undecided, nil, "anchor|"+what, "-", "unresolved anchor: "+what+" not found in the current tree; the rule cannot be decided")
}

func hasProp(ps []string, p string) bool {
	for _, x := range ps {
		if x == p {
			return true
		}
	}
	return false
}

// ---- known findings ----

type KnownFinding struct {
	Property string `json:"property"`
	Rule     string `json:"rule"`
	Key      string `json:"key"`
	Status   string `json:"status"` // "known" | "fixed"
	Commit   string `json:"commit,omitempty"`
	What     string `json:"what"`
}

type KnownFile struct {
	Findings []KnownFinding `json:"findings"`
	Lines    []string       `json:"lines,omitempty"`
}

func loadKnown(verifDir string) (KnownFile, error) {
	var kf KnownFile
	b, err := os.ReadFile(filepath.Join(verifDir, "known_findings.json"))
	if err != nil {
		if os.IsNotExist(err) {
			return kf, nil
		}
		return kf, err
	}
	err = json.Unmarshal(b, &kf)
	return kf, err
}

func (kf KnownFile) match(pid string, ob Ob) *KnownFinding {
	for i := range kf.Findings {
		f := &kf.Findings[i]
		if f.Status == "known" && f.Property == pid && f.Key == ob.Key {
			return f
		}
	}
	return nil
}

// ---- evidence ----

type ruleCount struct {
	Rule       string `json:"rule"`
	Doc        string `json:"doc"`
	Count      int    `json:"obligations"`
	Floor      int    `json:"floor"`
	OK         int    `json:"ok"`
	Violations int    `json:"violations"`
	Undecided  int    `json:"undecided"`
}

type Evidence struct {
	PropertyID  string         `json:"property_id"`
	Tier        string         `json:"tier"`
	Seed        int            `json:"seed"`
	Level       string         `json:"level"`
	Coverage    map[string]any `json:"coverage"`
	Assumptions []string       `json:"assumptions"`
	WallS       float64        `json:"wall_s"`
	Violations  int            `json:"violations"`
}

func writeJSON(path string, v any) error {
	if err := os.MkdirAll(filepath.Dir(path), 0o755); err != nil {
		return err
	}
	b, err := json.MarshalIndent(v, "", " ")
	if err != nil {
		return err
	}
	tmp := path + ".tmp"
	if err := os.WriteFile(tmp, append(b, '\n'), 0o644); err != nil {
		return err
	}
	return os.Rename(tmp, path)
}

func replayName(pid string, ob Ob) string {
	h := sha1.Sum([]byte(ob.Key))
	rule := strings.ReplaceAll(ob.Rule, "/", "_")
	return fmt.Sprintf("%s-%s-%x.json", pid, rule, h[:4])
}

type Replay struct {
	Property string `json:"property"`
	Ob       Ob     `json:"obligation"`
	RuleDoc  string `json:"rule_doc"`
	Config   string `json:"config"`
	Repo     string `json:"repo"`
	Howto    string `json:"howto"`
}

func sortObs(obs []Ob) {
	sort.SliceStable(obs, func(i, j int) bool {
		if obs[i].Rule != obs[j].Rule {
			return obs[i].Rule < obs[j].Rule
		}
		return obs[i].Key < obs[j].Key
	})
}
