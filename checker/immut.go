package main

import (
	"fmt"
	"go/token"
	"go/types"
	"sort"
	"strings"

	"golang.org/x/tools/go/ssa"
)

// ----------------------------------------------------------------------------
// IMMUT: every write into memory that may be reachable from a published
// version (T-REGIONS) must go through a pointer/slice the writer provably owns.
// ----------------------------------------------------------------------------

// T-REGIONS: persistent types (generic origin names) and the properties a
// violation in that region breaks.
var persistentTypes = map[string][]string{
	// an in-place write to table-reachable memory breaks snapshot isolation (C01)
	// and shows uncommitted state / survives an abort (C02)
	"statedb.tableEntry":          {"C01", "C02"},
	"statedb.tableInitialization": {"C01", "C02", "C19"},
	"statedb.initToken":           {"C01", "C02", "C19"},
	"statedb.partIndex":           {"C01", "C02"},
	"statedb.partIndexTxn":        {"C01", "C02"}, // embedded in partIndex; field tx is writer scratch (E1)
	"statedb.lpmIndex":            {"C01", "C02"},
	// the per-prefix object lists are what queries on a non-unique LPM index return (C04),
	// with the revision each object carries (C09)
	"statedb.lpmEntry":       {"C01", "C02", "C13", "C04", "C09"},
	"statedb.lpmEntryObject": {"C01", "C02", "C13", "C04", "C09"},
	// radix nodes back tables (C01, C02), part.Tree itself (C11) and Map/Set (C17)
	"part.header":            {"C01", "C02", "C11", "C17"},
	"part.leaf":              {"C01", "C02", "C11", "C17", "C04", "C09"}, // a leaf holds the indexed object and its revision
	"part.node4":             {"C01", "C02", "C11", "C17"},
	"part.node16":            {"C01", "C02", "C11", "C17"},
	"part.node48":            {"C01", "C02", "C11", "C17"},
	"part.node256":           {"C01", "C02", "C11", "C17"},
	"part.Tree":              {"C01", "C02", "C11", "C17"},
	"part.Map":               {"C17"},
	"part.Set":               {"C17"},
	"part.mapKVPair":         {"C17"},
	"lpm.lpmNode":            {"C01", "C02", "C13"},
	"lpm.Trie":               {"C01", "C02", "C13"},
	"reconciler.StatusSet":   {"C15"},
	"reconciler.namedStatus": {"C15"},
}

// E1: fields of persistent structs that are writer-owned scratch, with the
// only functions allowed to store to them.
var scratchFields = map[string][]string{
	"statedb.partIndexTxn.tx": {"statedb.(partIndex).txn", "statedb.(partIndexTxn).notify", "statedb.(partIndexTxn).commit"},
}

// fields whose slice is owned whenever the enclosing struct is owned (verified
// by WTXN-PRIVATE: the slice is cloned where `locked` is set to true)
var ownedWithParent = map[string]bool{
	"statedb.tableEntry.indexes": true,
}

// fields that only ever hold fresh slices/private data (verified by OWNED-FIELD)
var alwaysOwnedFields = map[string]bool{
	"statedb.writeTxnState.tableEntries": true,
}

// owning constructors: result is owned by the calling transaction (verified by OWN-CTOR)
var owningCtors = map[string]bool{
	"part.(Txn).cloneNode": true,
	"lpm.(Txn).clone":      true,
}

// alias-returning helpers: result aliases argument 0 (verified by HELPER-SHAPE)
var aliasHelpers = map[string]bool{
	"part.(header).self":     true,
	"part.(header).node4":    true,
	"part.(header).node16":   true,
	"part.(header).node48":   true,
	"part.(header).node256":  true,
	"part.(header).children": true,
}

const getLeafName = "part.(header).getLeaf"
const isLeafName = "part.(header).isLeaf"

// fresh-returning functions of the module (verified by OWN-CTOR: all returns fresh)
var freshCtors = map[string]bool{
	"part.(header).clone":   true,
	"part.(header).promote": true,
	"part.newLeaf":          true,
}

// E2: exported decode methods that by contract write their receiver (the
// caller's destination).
var decodeMethods = map[string]bool{
	"UnmarshalJSON": true, "UnmarshalYAML": true,
}

// T-STDLIB: external functions that mutate the slice passed as argument N.
var extMutators = map[string]int{
	"slices.DeleteFunc": 0, "slices.Delete": 0, "slices.Insert": 0, "slices.Sort": 0, "slices.SortFunc": 0,
	"slices.SortStableFunc": 0, "slices.Reverse": 0, "slices.Compact": 0, "slices.CompactFunc": 0,
	"slices.Replace": 0,
	"sort.Strings":   0, "sort.Ints": 0, "sort.Slice": 0, "sort.SliceStable": 0,
	"encoding/binary.(bigEndian).PutUint16": 1, "encoding/binary.(bigEndian).PutUint32": 1, "encoding/binary.(bigEndian).PutUint64": 1,
	"encoding/binary.(littleEndian).PutUint16": 1, "encoding/binary.(littleEndian).PutUint32": 1, "encoding/binary.(littleEndian).PutUint64": 1,
	// append into spare capacity of the argument
	"encoding/binary.(bigEndian).AppendUint16": 1, "encoding/binary.(bigEndian).AppendUint32": 1, "encoding/binary.(bigEndian).AppendUint64": 1,
	"encoding/binary.(littleEndian).AppendUint16": 1, "encoding/binary.(littleEndian).AppendUint32": 1, "encoding/binary.(littleEndian).AppendUint64": 1,
}

// external functions whose result aliases (or is a grown copy of) argument 0
var extAliasResult = map[string]bool{
	"slices.DeleteFunc": true, "slices.Delete": true, "slices.Insert": true, "slices.Compact": true,
	"slices.CompactFunc": true, "slices.Grow": true, "slices.Clip": true, "slices.Replace": true,
}

// external functions returning fresh memory
var extFresh = map[string]bool{
	"slices.Clone": true, "bytes.Clone": true, "slices.Concat": true, "slices.Collect": true,
	"slices.Sorted": true, "slices.AppendSeq": false,
	"encoding/binary.(bigEndian).AppendUint16": false, // aliases arg 0 unless nil: handled as append
}

type reason struct {
	msg string
	pos token.Pos
}

// cls is the ownership class of a pointer/slice value: empty means
// fresh/owned/nil (a write through it is justified); params lists parameters
// of the enclosing function the value may alias (obligation moves to the
// callers); shared lists the reasons it may be reachable from a published
// version.
type cls struct {
	params map[int]bool
	shared []reason
	why    []string
	owned  bool // justified (in part) by transaction ownership (J2) rather than freshness
}

func (a *cls) join(b cls) {
	for p := range b.params {
		if a.params == nil {
			a.params = map[int]bool{}
		}
		a.params[p] = true
	}
	a.shared = append(a.shared, b.shared...)
	a.owned = a.owned || b.owned
	for _, w := range b.why {
		dup := false
		for _, x := range a.why {
			if x == w {
				dup = true
			}
		}
		if !dup && len(a.why) < 6 {
			a.why = append(a.why, w)
		}
	}
}

func clsWhy(s string) cls   { return cls{why: []string{s}} }
func clsOwned(s string) cls { return cls{why: []string{s}, owned: true} }
func clsShared(msg string, pos token.Pos) cls {
	return cls{shared: []reason{{msg, pos}}}
}

type immut struct {
	c *Ctx
	// writesParam[fn][i]: the set of dynamic types under which fn writes through
	// its parameter i ("*" = always; for interface-typed parameters the concrete
	// types whose methods do the writing).
	writesParam  map[*ssa.Function]map[int]map[string]bool
	writesFields map[*ssa.Function]map[string]bool
	closureSite  map[*ssa.Function]*ssa.MakeClosure
	paramIdx     map[*ssa.Parameter]int
	sites        []*writeSite
	built        bool
	retBusy      map[*ssa.Function]bool
}

type writeSite struct {
	fn     *ssa.Function
	in     ssa.Instruction
	kind   string    // store | append | copy | clear | mutator:<name> | call:<callee>#arg
	target ssa.Value // address (store) or slice/pointer value (others)
	argIdx int
	callee *ssa.Function
	dyn    map[string]bool // dynamic types of the actual under which the callee writes it ("*" = any)
	// results
	relevant bool
	props    []string
	region   string
	c        cls
	exempt   string
}

func (c *Ctx) immutEngine() *immut {
	if c.im != nil {
		return c.im
	}
	im := &immut{c: c, writesParam: map[*ssa.Function]map[int]map[string]bool{}, writesFields: map[*ssa.Function]map[string]bool{},
		closureSite: map[*ssa.Function]*ssa.MakeClosure{}, paramIdx: map[*ssa.Parameter]int{}}
	c.im = im
	for _, fn := range c.Funcs {
		for i, p := range fn.Params {
			im.paramIdx[p] = i
		}
		for _, ia := range allInstrs(fn) {
			if mc, ok := ia.In.(*ssa.MakeClosure); ok {
				if f, ok := mc.Fn.(*ssa.Function); ok {
					im.closureSite[f] = mc
				}
			}
		}
	}
	im.computeFieldWrites()
	im.run()
	return im
}

// ---- type helpers ----

func persistentKey(t types.Type) (string, []string) {
	n := namedOf(t)
	if n == nil || n.Obj().Pkg() == nil {
		return "", nil
	}
	k := shortPkg(n.Obj().Pkg().Path()) + "." + n.Obj().Name()
	if p, ok := persistentTypes[k]; ok {
		return k, p
	}
	return "", nil
}

func pointee(t types.Type) types.Type {
	if p, ok := t.Underlying().(*types.Pointer); ok {
		return p.Elem()
	}
	return nil
}

// fieldKeyOf: "pkg.Type.field" for a FieldAddr.
func fieldKeyOf(fa *ssa.FieldAddr) string {
	pt := pointee(fa.X.Type())
	if pt == nil {
		return ""
	}
	st, ok := pt.Underlying().(*types.Struct)
	if !ok {
		return ""
	}
	n := namedOf(pt)
	tn := "struct"
	if n != nil {
		tn = n.Obj().Name()
		if n.Obj().Pkg() != nil {
			tn = shortPkg(n.Obj().Pkg().Path()) + "." + tn
		}
	}
	return tn + "." + st.Field(fa.Field).Name()
}

// ---- peeling to the root ----

// peel follows interior derivations (field/index/slice/convert/alias helper)
// back to the root value. leafFact reports whether getLeaf() was crossed; the
// caller must then establish isLeaf of the argument.
func (im *immut) peel(v ssa.Value) (root ssa.Value, through []ssa.Value) {
	for {
		v = derefLocal(v)
		switch x := v.(type) {
		case *ssa.FieldAddr:
			through = append(through, x)
			v = x.X
		case *ssa.IndexAddr:
			through = append(through, x)
			v = x.X
		case *ssa.Slice:
			through = append(through, x)
			v = x.X
		case *ssa.ChangeType:
			v = x.X
		case *ssa.Convert:
			v = x.X
		case *ssa.Call:
			if f := staticCallee(x); f != nil && aliasHelpers[im.c.fnName(f)] && len(x.Call.Args) > 0 {
				through = append(through, x)
				v = x.Call.Args[0]
				continue
			}
			return v, through
		default:
			return v, through
		}
	}
}

// relevance of a write whose target peels to root.
func (im *immut) relevance(root ssa.Value, through []ssa.Value, sliceLevel bool) (bool, string, []string) {
	t := root.Type()
	if pt := pointee(t); pt != nil {
		if _, isPtr := types.Unalias(pt).(*types.Pointer); !isPtr {
			if k, props := persistentKey(pt); k != "" {
				return true, k, props
			}
		}
		// pointer to an inline array/field of a persistent struct was peeled already;
		// a pointer to a non-persistent allocation is irrelevant, unless the chain
		// passes through a slice loaded from persistent memory (handled below)
	}
	if _, isSlice := t.Underlying().(*types.Slice); isSlice {
		if k, props := im.sliceProvenance(root, map[ssa.Value]bool{}); k != "" {
			return true, k, props
		}
	}
	return false, "", nil
}

// sliceProvenance: does the slice value come from persistent memory?
func (im *immut) sliceProvenance(v ssa.Value, seen map[ssa.Value]bool) (string, []string) {
	if seen[v] {
		return "", nil
	}
	seen[v] = true
	if st, ok := v.Type().Underlying().(*types.Slice); ok {
		if k, _ := persistentKey(st.Elem()); k == "statedb.tableEntry" {
			return "dbRoot([]*tableEntry)", []string{"C01", "C02"}
		}
	}
	switch x := v.(type) {
	case *ssa.UnOp:
		if addr, ok := isLoad(x); ok {
			if fa, ok := addr.(*ssa.FieldAddr); ok {
				if pt := pointee(fa.X.Type()); pt != nil {
					if k, props := persistentKey(pt); k != "" {
						return fieldKeyOf(fa), props
					}
				}
			}
			// load of a local slice variable: look at what was stored
			if a, ok := addr.(*ssa.Alloc); ok {
				for _, st := range storesTo(x.Parent(), a) {
					if k, p := im.sliceProvenance(st.Val, seen); k != "" {
						return k, p
					}
				}
			}
		}
	case *ssa.Field:
		if k, props := persistentKey(x.X.Type()); k != "" {
			_, f, _ := fieldOf(x)
			return k + "." + f, props
		}
	case *ssa.Slice:
		return im.sliceProvenance(x.X, seen)
	case *ssa.Phi:
		for _, e := range x.Edges {
			if k, p := im.sliceProvenance(e, seen); k != "" {
				return k, p
			}
		}
	case *ssa.ChangeType:
		return im.sliceProvenance(x.X, seen)
	case *ssa.Call:
		if b, ok := x.Call.Value.(*ssa.Builtin); ok && b.Name() == "append" {
			return im.sliceProvenance(x.Call.Args[0], seen)
		}
		if f := staticCallee(x); f != nil {
			if extAliasResult[extFnName(f)] {
				return im.sliceProvenance(x.Call.Args[0], seen)
			}
		}
	}
	return "", nil
}

// ---- classification ----

type clsCtx struct {
	fn       *ssa.Function
	use      *ssa.BasicBlock
	visiting map[ssa.Value]bool
	depth    int
	edge     *[2]*ssa.BasicBlock
}

func (im *immut) classify(v ssa.Value, fn *ssa.Function, use *ssa.BasicBlock) cls {
	return im.class(v, &clsCtx{fn: fn, use: use, visiting: map[ssa.Value]bool{}})
}

func (im *immut) lockedFact(v ssa.Value, use *ssa.BasicBlock) bool {
	if use == nil {
		return false
	}
	for _, f := range factsAt(use) {
		cond, val := stripNot(f.Cond, f.Val)
		if e, ok := loadOfField(cond, "tableEntry", "locked"); ok && val && e == v {
			return true
		}
	}
	return false
}

// isLeafKnown: the header value v is known to be a leaf.
func (im *immut) isLeafKnown(v ssa.Value, use *ssa.BasicBlock, edge *[2]*ssa.BasicBlock, depth int) bool {
	if depth > 8 {
		return false
	}
	// (1) derived from a *leaf typed pointer
	switch x := v.(type) {
	case *ssa.FieldAddr:
		if pt := pointee(x.X.Type()); pt != nil && namedTypeName(pt) == "leaf" {
			return true
		}
	case *ssa.Call:
		if f := staticCallee(x); f != nil {
			n := im.c.fnName(f)
			if (n == "part.(header).self" || owningCtors[n] || n == "part.(header).clone") && len(x.Call.Args) > 0 {
				a := x.Call.Args[0]
				if owningCtors[n] && len(x.Call.Args) > 1 {
					a = x.Call.Args[1]
				}
				if im.isLeafKnown(a, use, edge, depth+1) {
					return true
				}
			}
		}
	case *ssa.Convert, *ssa.ChangeType:
		if im.isLeafKnown(stripConv(v), use, edge, depth+1) {
			return true
		}
	}
	// (2) edge fact isLeaf(v) == true
	check := func(f edgeFact) bool {
		cond, val := stripNot(f.Cond, f.Val)
		if call, ok := cond.(*ssa.Call); ok && val {
			if sf := staticCallee(call); sf != nil && im.c.fnName(sf) == isLeafName && len(call.Call.Args) > 0 && call.Call.Args[0] == v {
				return true
			}
		}
		return false
	}
	if edge != nil {
		if f, ok := edgeFactOn(edge[0], edge[1]); ok && check(f) {
			return true
		}
		for _, f := range factsAt(edge[0]) {
			if check(f) {
				return true
			}
		}
	}
	if use != nil {
		for _, f := range factsAt(use) {
			if check(f) {
				return true
			}
		}
	}
	return false
}

func (im *immut) class(v ssa.Value, cx *clsCtx) cls {
	if v == nil {
		return cls{}
	}
	v = derefLocal(v)
	if cx.visiting[v] {
		return cls{} // cycle (loop phi): neutral element
	}
	cx.depth++
	defer func() { cx.depth-- }()
	if cx.depth > 60 {
		return clsShared("classification too deep", v.Pos())
	}
	// an entry pointer under the `locked` guard is owned
	if namedTypeName(v.Type()) == "tableEntry" {
		if _, ok := v.Type().Underlying().(*types.Pointer); ok && im.lockedFact(v, cx.use) {
			return clsOwned("*tableEntry under a true `locked` test (private copy of this write transaction)")
		}
	}
	switch x := v.(type) {
	case *ssa.Alloc:
		return clsWhy("fresh allocation")
	case *ssa.MakeSlice, *ssa.MakeMap, *ssa.MakeChan, *ssa.MakeClosure:
		return clsWhy("fresh allocation")
	case *ssa.Const:
		return cls{}
	case *ssa.Global:
		return clsShared("global "+x.Name(), x.Pos())
	case *ssa.Parameter:
		if x.Parent() != nil && x.Parent().Parent() != nil {
			// parameter of a function literal: callers are not enumerable in general;
			// the synthetic range-over-func bodies receive loop values
			return clsShared("parameter "+x.Name()+" of a function literal (callers unknown)", x.Pos())
		}
		if i, ok := im.paramIdx[x]; ok {
			return cls{params: map[int]bool{i: true}}
		}
		return clsShared("parameter "+x.Name(), x.Pos())
	case *ssa.FreeVar:
		mc := im.closureSite[x.Parent()]
		if mc == nil {
			return clsShared("captured variable "+x.Name()+" (closure site not found)", x.Pos())
		}
		for i, fv := range x.Parent().FreeVars {
			if fv == x && i < len(mc.Bindings) {
				sub := &clsCtx{fn: mc.Parent(), use: mc.Block(), visiting: map[ssa.Value]bool{}, depth: cx.depth}
				r := im.class(mc.Bindings[i], sub)
				if len(r.params) > 0 {
					// parameter of the enclosing function captured by the literal
					r.shared = append(r.shared, reason{"captured parameter of the enclosing function (through closure)", x.Pos()})
					r.params = nil
				}
				return r
			}
		}
		return clsShared("captured variable "+x.Name(), x.Pos())
	case *ssa.FieldAddr:
		return im.class(x.X, cx)
	case *ssa.IndexAddr:
		return im.class(x.X, cx)
	case *ssa.Slice:
		return im.class(x.X, cx)
	case *ssa.ChangeType:
		return im.class(x.X, cx)
	case *ssa.Convert:
		return im.class(x.X, cx)
	case *ssa.MakeInterface:
		return im.class(x.X, cx)
	case *ssa.Phi:
		cx.visiting[v] = true
		defer delete(cx.visiting, v)
		var out cls
		for i, e := range x.Edges {
			pred := x.Block().Preds[i]
			// getLeaf alias needs the fact of this particular edge
			sub := *cx
			sub.use = pred
			sub.edge = &[2]*ssa.BasicBlock{pred, x.Block()}
			r := im.class(e, &sub)
			out.join(r)
		}
		return out
	case *ssa.Extract:
		if call, ok := x.Tuple.(*ssa.Call); ok {
			return im.classCall(call, x.Index, cx)
		}
		return clsShared("component of a tuple", x.Pos())
	case *ssa.Call:
		return im.classCall(x, 0, cx)
	case *ssa.UnOp:
		if addr, ok := isLoad(x); ok {
			return im.classLoad(x, addr, cx)
		}
		return cls{}
	case *ssa.Field:
		// field of a struct value
		if fk := structFieldKey(x); alwaysOwnedFields[fk] {
			return clsOwned("field " + fk + " only ever holds private data")
		}
		return clsShared("pointer/slice taken from a struct value ("+structFieldKey(x)+")", x.Pos())
	case *ssa.TypeAssert:
		return clsShared("value obtained by type assertion", x.Pos())
	case *ssa.Lookup, *ssa.Index:
		return clsShared("element read from a container", v.Pos())
	case *ssa.BinOp:
		return cls{}
	}
	return clsShared(fmt.Sprintf("value of unknown origin (%T)", v), v.Pos())
}

func structFieldKey(x *ssa.Field) string {
	n := namedOf(x.X.Type())
	_, f, _ := fieldOf(x)
	if n == nil || n.Obj().Pkg() == nil {
		return "struct." + f
	}
	return shortPkg(n.Obj().Pkg().Path()) + "." + n.Obj().Name() + "." + f
}

func (im *immut) classCall(call *ssa.Call, resultIdx int, cx *clsCtx) cls {
	com := call.Common()
	if b, ok := com.Value.(*ssa.Builtin); ok {
		switch b.Name() {
		case "append":
			r := im.class(com.Args[0], cx)
			return r // fresh iff the first operand is fresh/owned/nil
		case "make", "new":
			return clsWhy("fresh allocation")
		}
		return cls{}
	}
	f := staticCallee(call)
	if f == nil {
		if com.IsInvoke() {
			return clsShared("result of interface call "+com.Method.Name()+"()", call.Pos())
		}
		return clsShared("result of a dynamic call", call.Pos())
	}
	if im.c.inModule(f) {
		n := im.c.fnName(f)
		if owningCtors[n] {
			return clsOwned("result of " + n + " (owned by the calling transaction: copy, or same txnID)")
		}
		if freshCtors[n] {
			return clsWhy("result of " + n + " (fresh copy)")
		}
		if aliasHelpers[n] && len(com.Args) > 0 {
			return im.class(com.Args[0], cx)
		}
		if n == getLeafName && len(com.Args) > 0 {
			if im.isLeafKnown(com.Args[0], cx.use, cx.edge, 0) {
				return im.class(com.Args[0], cx)
			}
			return clsShared("leaf pointer read out of a node by getLeaf() (shared with older versions unless the node is itself the leaf)", call.Pos())
		}
		if sum := im.returnSummary(f, resultIdx); sum != nil {
			return *sum
		}
		return clsShared("result of "+n+"()", call.Pos())
	}
	n := extFnName(f)
	if extFresh[n] {
		return clsWhy("result of " + n + " (fresh)")
	}
	if extAliasResult[n] && len(com.Args) > 0 {
		return im.class(com.Args[0], cx)
	}
	if strings.HasPrefix(n, "encoding/binary.") && strings.Contains(n, "Append") && len(com.Args) > 1 {
		return im.class(com.Args[1], cx)
	}
	return clsShared("result of "+n+"()", call.Pos())
}

// returnSummary: a module function all of whose returns (for result idx) are
// fresh allocations made in the function.
func (im *immut) returnSummary(f *ssa.Function, idx int) *cls {
	if len(f.Blocks) == 0 {
		return nil
	}
	if im.retBusy == nil {
		im.retBusy = map[*ssa.Function]bool{}
	}
	if im.retBusy[f] {
		return nil
	}
	im.retBusy[f] = true
	defer delete(im.retBusy, f)
	var out cls
	n := 0
	for _, b := range f.Blocks {
		ret, ok := b.Instrs[len(b.Instrs)-1].(*ssa.Return)
		if !ok || idx >= len(ret.Results) {
			continue
		}
		n++
		r := im.classify(ret.Results[idx], f, b)
		if len(r.params) > 0 || len(r.shared) > 0 {
			return nil
		}
		out.join(r)
	}
	if n == 0 {
		return nil
	}
	out.why = []string{"result of " + im.c.fnName(f) + " (all returns fresh)"}
	return &out
}

// ---- loads: reaching stores ----

// derefLocal looks through a load of a single-assignment local variable that
// go/ssa spilled to an Alloc (captured by a closure or a defer): if the Alloc
// has exactly one store in its function and no closure stores to it, the load
// yields that stored value.
var derefCache = map[ssa.Value]ssa.Value{}

func derefLocal(v ssa.Value) ssa.Value {
	if r, ok := derefCache[v]; ok {
		return r
	}
	out := v
	if addr, ok := isLoad(v); ok {
		if a, ok := addr.(*ssa.Alloc); ok {
			if sv := singleStore(a); sv != nil {
				out = derefLocal(sv)
			}
		}
	}
	derefCache[v] = out
	return out
}

func singleStore(a *ssa.Alloc) ssa.Value {
	refs := a.Referrers()
	if refs == nil {
		return nil
	}
	var val ssa.Value
	n := 0
	for _, r := range *refs {
		switch x := r.(type) {
		case *ssa.Store:
			if x.Addr != a {
				return nil // the address itself is stored somewhere
			}
			n++
			val = x.Val
		case *ssa.UnOp, *ssa.DebugRef:
		case *ssa.MakeClosure:
			f, ok := x.Fn.(*ssa.Function)
			if !ok {
				return nil
			}
			for i, b := range x.Bindings {
				if b == a && i < len(f.FreeVars) && freeVarStored(f.FreeVars[i]) {
					return nil
				}
			}
		default:
			return nil
		}
	}
	if n != 1 {
		return nil
	}
	return val
}

func freeVarStored(fv *ssa.FreeVar) bool {
	refs := fv.Referrers()
	if refs == nil {
		return false
	}
	for _, r := range *refs {
		switch x := r.(type) {
		case *ssa.Store:
			return true
		case *ssa.UnOp, *ssa.DebugRef:
		case *ssa.MakeClosure:
			f, ok := x.Fn.(*ssa.Function)
			if !ok {
				return true
			}
			for i, b := range x.Bindings {
				if b == ssa.Value(fv) && i < len(f.FreeVars) && freeVarStored(f.FreeVars[i]) {
					return true
				}
			}
		default:
			return true
		}
	}
	return false
}

func canonAddr(v ssa.Value) string {
	v = derefLocal(v)
	switch x := v.(type) {
	case *ssa.FieldAddr:
		return canonAddr(x.X) + "." + fmt.Sprint(x.Field)
	case *ssa.IndexAddr:
		if c, ok := constInt(x.Index); ok {
			return canonAddr(x.X) + fmt.Sprintf("[%d]", c)
		}
		return canonAddr(x.X) + "[" + x.Index.Name() + "]"
	case *ssa.ChangeType:
		return canonAddr(x.X)
	}
	return "V" + v.Name() + fmt.Sprintf("@%p", v)
}

func addrRoot(v ssa.Value) ssa.Value {
	for {
		v = derefLocal(v)
		switch x := v.(type) {
		case *ssa.FieldAddr:
			v = x.X
		case *ssa.IndexAddr:
			v = x.X
		case *ssa.ChangeType:
			v = x.X
		default:
			return v
		}
	}
}

// lastKey: the innermost field/element key of an address, used for may-alias.
func lastKey(v ssa.Value) string {
	switch x := v.(type) {
	case *ssa.FieldAddr:
		return "F:" + fieldKeyOf(x)
	case *ssa.IndexAddr:
		return "E:" + x.Type().String()
	case *ssa.ChangeType:
		return lastKey(x.X)
	}
	return "P:" + v.Type().String()
}

type reachResult struct {
	vals       []ssa.Value // values stored by the reaching stores
	zero       bool        // the zero value of a fresh allocation reaches
	unresolved string      // non-empty: cannot resolve (reason)
	upos       token.Pos
}

// reachingStores finds the stores that may define the value read by `load`.
// With substRoot != nil the address root is replaced (phi address resolved per
// incoming edge).
func (im *immut) reachingStores(addr ssa.Value, at ssa.Instruction) reachResult {
	var res reachResult
	root := addrRoot(addr)
	want := canonAddr(addr)
	key := lastKey(addr)
	fnEntry := at.Parent().Blocks[0]

	type state struct {
		b     *ssa.BasicBlock
		idx   int // scan instructions idx-1 .. 0
		want  string
		root  ssa.Value
		canon func(ssa.Value) string
	}
	// substitution support: canonical form with the phi root replaced
	mkCanon := func(from, to ssa.Value) func(ssa.Value) string {
		if from == nil {
			return canonAddr
		}
		fromC := canonAddr(from)
		toC := canonAddr(to)
		return func(v ssa.Value) string {
			s := canonAddr(v)
			if strings.HasPrefix(s, toC) {
				return fromC + s[len(toC):]
			}
			return s
		}
	}
	seen := map[string]bool{}
	var work []state
	work = append(work, state{at.Block(), instrIndex(at), want, root, canonAddr})
	steps := 0
	for len(work) > 0 && res.unresolved == "" {
		st := work[len(work)-1]
		work = work[:len(work)-1]
		sk := fmt.Sprintf("%p/%d/%s/%p", st.b, st.idx, st.want, st.root)
		if seen[sk] {
			continue
		}
		seen[sk] = true
		steps++
		if steps > 4000 {
			res.unresolved = "search too large"
			break
		}
		stopped := false
		for i := st.idx - 1; i >= 0 && !stopped; i-- {
			in := st.b.Instrs[i]
			// reached the definition of the root allocation: zero value
			if v, ok := in.(ssa.Value); ok && v == st.root {
				if _, isPhi := v.(*ssa.Phi); isPhi {
					break // handled at block start below
				}
				if _, isAlloc := v.(*ssa.Alloc); isAlloc {
					res.zero = true
				} else if _, isMk := v.(*ssa.MakeSlice); isMk {
					res.zero = true
				} else {
					res.unresolved = "value in memory when the root pointer was obtained (" + describe(v) + ")"
					res.upos = v.Pos()
				}
				stopped = true
				break
			}
			switch x := in.(type) {
			case *ssa.Store:
				c := st.canon(x.Addr)
				if c == st.want {
					res.vals = append(res.vals, x.Val)
					stopped = true
				} else if strings.HasPrefix(st.want, c+".") || strings.HasPrefix(st.want, c+"[") {
					// whole-struct store to a prefix of the address: the field comes from the stored value
					res.unresolved = "field of a struct value copied from elsewhere"
					res.upos = x.Pos()
					stopped = true
				} else if lastKey(x.Addr) == key && addrRoot(x.Addr) != st.root {
					// may alias: same field/element type through a different pointer
					if a1, ok := addrRoot(x.Addr).(*ssa.Alloc); ok {
						if a2, ok2 := st.root.(*ssa.Alloc); ok2 && a1 != a2 {
							continue // two distinct allocations cannot alias
						}
					}
					res.unresolved = "an intervening store through another pointer may alias (" + lastKey(x.Addr) + ")"
					res.upos = x.Pos()
					stopped = true
				}
			case ssa.CallInstruction:
				if im.callMayWrite(x, key, st.root) {
					res.unresolved = "an intervening call may write " + key + ": " + im.c.calleeName(x)
					res.upos = x.Pos()
					stopped = true
				}
			}
		}
		if stopped {
			continue
		}
		// block start
		if st.b == fnEntry && len(st.b.Preds) == 0 {
			switch st.root.(type) {
			case *ssa.Alloc:
				res.zero = true
			default:
				res.unresolved = "value in memory on function entry"
				res.upos = at.Pos()
			}
			continue
		}
		// a phi root defined in this block: resolve per incoming edge
		if phi, ok := st.root.(*ssa.Phi); ok && phi.Block() == st.b {
			for i, e := range phi.Edges {
				p := st.b.Preds[i]
				er := addrRoot(e)
				// want with root replaced
				fromC := canonAddr(phi)
				nw := st.want
				if strings.HasPrefix(nw, fromC) {
					nw = canonAddr(e) + nw[len(fromC):]
				}
				_ = mkCanon
				work = append(work, state{p, len(p.Instrs), nw, er, canonAddr})
			}
			continue
		}
		for _, p := range st.b.Preds {
			work = append(work, state{p, len(p.Instrs), st.want, st.root, st.canon})
		}
	}
	return res
}

// callMayWrite: may this call write the memory cell identified by key (field
// or element kind) reachable from root?
func (im *immut) callMayWrite(call ssa.CallInstruction, key string, root ssa.Value) bool {
	com := call.Common()
	if _, ok := com.Value.(*ssa.Builtin); ok {
		return false // append/copy/clear on the cell itself are handled as writes of their own
	}
	// a non-escaping local allocation cannot be written by a callee that does not receive it
	if a, ok := root.(*ssa.Alloc); ok && !a.Heap {
		gets := false
		for _, arg := range callArgs(call) {
			if addrRoot(arg) == a {
				gets = true
			}
		}
		if !gets {
			return false
		}
	}
	fk := strings.TrimPrefix(key, "F:")
	isField := strings.HasPrefix(key, "F:")
	f := staticCallee(call)
	var targets []*ssa.Function
	if f != nil {
		if !im.c.inModule(f) {
			return false // T-STDLIB: external calls do not write module-internal cells (mutators act on their slice argument only)
		}
		targets = []*ssa.Function{f}
	} else if com.IsInvoke() {
		targets = im.c.CG().resolveInvoke(com)
	} else {
		for _, e := range im.c.CG().Out[call.Parent()] {
			if e.Site == call.(ssa.Instruction) && e.Callee != nil {
				targets = append(targets, e.Callee)
			}
		}
	}
	for _, t := range targets {
		wf := im.writesFields[t]
		if isField {
			if wf[fk] {
				return true
			}
		} else if wf[key] {
			return true
		}
	}
	return false
}

// computeFieldWrites: per function, the set of field keys / element kinds it
// may store to, transitively over the module call graph.
func (im *immut) computeFieldWrites() {
	cg := im.c.CG()
	for _, fn := range im.c.Funcs {
		s := map[string]bool{}
		for _, ia := range allInstrs(fn) {
			if st, ok := ia.In.(*ssa.Store); ok {
				switch a := st.Addr.(type) {
				case *ssa.FieldAddr:
					s[fieldKeyOf(a)] = true
				case *ssa.IndexAddr:
					s["E:"+a.Type().String()] = true
				default:
					s["P:"+st.Addr.Type().String()] = true
				}
			}
		}
		im.writesFields[fn] = s
	}
	for changed := true; changed; {
		changed = false
		for _, fn := range im.c.Funcs {
			s := im.writesFields[fn]
			for _, e := range cg.Out[fn] {
				if e.Callee == nil {
					continue
				}
				for k := range im.writesFields[e.Callee] {
					if !s[k] {
						s[k] = true
						changed = true
					}
				}
			}
		}
	}
}

func (im *immut) classLoad(load *ssa.UnOp, addr ssa.Value, cx *clsCtx) cls {
	cx.visiting[load] = true
	defer delete(cx.visiting, load)
	fa, _ := addr.(*ssa.FieldAddr)
	fk := ""
	if fa != nil {
		fk = fieldKeyOf(fa)
		if alwaysOwnedFields[fk] {
			return clsOwned("field " + fk + " only ever holds private slices (OWNED-FIELD)")
		}
	}
	rr := im.reachingStores(addr, load)
	if rr.unresolved == "" {
		var out cls
		for _, v := range rr.vals {
			sub := *cx
			out.join(im.class(v, &sub))
		}
		if len(out.shared) == 0 && len(out.params) == 0 {
			out.join(clsWhy("value stored earlier in this function (reaching stores)"))
		}
		return out
	}
	if fa != nil && ownedWithParent[fk] {
		r := im.class(fa.X, cx)
		if len(r.shared) == 0 && len(r.params) == 0 {
			return clsOwned("field " + fk + " is owned together with its (owned) entry")
		}
		return r
	}
	what := "pointer/slice loaded from memory"
	if fk != "" {
		what += " (field " + fk + ")"
	}
	c := clsShared(what+": "+rr.unresolved, load.Pos())
	return c
}

// ---- write enumeration ----

func (im *immut) enumerate(fn *ssa.Function) []*writeSite {
	var out []*writeSite
	for _, ia := range allInstrs(fn) {
		switch x := ia.In.(type) {
		case *ssa.Store:
			out = append(out, &writeSite{fn: fn, in: x, kind: "store", target: x.Addr})
		case ssa.CallInstruction:
			com := x.Common()
			if b, ok := com.Value.(*ssa.Builtin); ok {
				switch b.Name() {
				case "append":
					// append writes the backing array of its first operand beyond len
					if !isNilConst(com.Args[0]) {
						out = append(out, &writeSite{fn: fn, in: x, kind: "append", target: com.Args[0]})
					}
				case "copy":
					out = append(out, &writeSite{fn: fn, in: x, kind: "copy", target: com.Args[0]})
				case "clear":
					out = append(out, &writeSite{fn: fn, in: x, kind: "clear", target: com.Args[0]})
				}
				continue
			}
			if f := staticCallee(x); f != nil && !im.c.inModule(f) {
				n := extFnName(f)
				if ai, ok := extMutators[n]; ok && ai < len(com.Args) {
					out = append(out, &writeSite{fn: fn, in: x, kind: "mutator:" + n, target: com.Args[ai]})
				}
				continue
			}
			// module callees (static or resolved) that write through a parameter
			var targets []*ssa.Function
			if f := staticCallee(x); f != nil {
				targets = []*ssa.Function{f}
			} else if com.IsInvoke() {
				targets = im.c.CG().resolveInvoke(com)
			} else {
				for _, e := range im.c.CG().Out[fn] {
					if e.Site == ia.In && e.Callee != nil {
						targets = append(targets, e.Callee)
					}
				}
			}
			args := callArgs(x)
			for _, t := range targets {
				for pi, ts := range im.writesParam[t] {
					if pi >= len(args) || pi >= len(t.Params) {
						continue
					}
					dyn := ts
					_, actualIface := args[pi].Type().Underlying().(*types.Interface)
					_, formalIface := t.Params[pi].Type().Underlying().(*types.Interface)
					if actualIface && !formalIface {
						// interface value dispatched to a concrete method: it writes only when the
						// dynamic type is that method's receiver/parameter type
						dyn = map[string]bool{dynTypeKey(t.Params[pi].Type()): true}
					}
					out = append(out, &writeSite{fn: fn, in: x, kind: "call:" + im.c.fnName(t), target: args[pi], argIdx: pi, callee: t, dyn: dyn})
				}
			}
		}
	}
	return out
}

func (im *immut) decide(w *writeSite) {
	// E1: scratch fields
	if st, ok := w.in.(*ssa.Store); ok {
		if fa, ok := st.Addr.(*ssa.FieldAddr); ok {
			if _, ok := scratchFields[fieldKeyOf(fa)]; ok {
				w.exempt = "E1 writer scratch field " + fieldKeyOf(fa)
				w.relevant = false
				return
			}
		}
	}
	tgt := w.target
	if mi, ok := tgt.(*ssa.MakeInterface); ok {
		// the dynamic type is known here: the callee writes only for the types in dyn
		if w.dyn != nil && !w.dyn["*"] && !w.dyn[dynTypeKey(mi.X.Type())] {
			w.exempt = "dynamic type " + dynTypeKey(mi.X.Type()) + " is not one the callee writes through"
			w.relevant = false
			return
		}
		tgt = mi.X
		w.dyn = nil
	}
	root, through := im.peel(tgt)
	// An address that is a phi of cell addresses (`nodep := &txn.root` /
	// `&node.children[bit]`) is decided per incoming edge: only the edges whose
	// cell lies in persistent memory matter.
	if phi, ok := root.(*ssa.Phi); ok && len(through) == 0 && w.kind == "store" {
		if pt := pointee(phi.Type()); pt != nil {
			if k, _ := persistentKey(pt); k == "" || isPointerType(pt) {
				seen := map[*ssa.Phi]bool{}
				var leaves []phiLeaf
				im.phiLeaves(phi, seen, &leaves)
				var out cls
				for _, lf := range leaves {
					r2, th2 := im.peel(lf.v)
					rel, region, props := im.relevance(r2, th2, false)
					if !rel {
						continue
					}
					w.relevant, w.region, w.props = true, region, props
					cx := &clsCtx{fn: w.fn, use: lf.pred, visiting: map[ssa.Value]bool{}}
					out.join(im.class(lf.v, cx))
				}
				w.c = out
				if !w.relevant {
					w.c = im.classify(tgt, w.fn, w.in.Block())
				}
				return
			}
		}
	}
	w.relevant, w.region, w.props = im.relevance(root, through, w.kind != "store")
	// An interface-typed actual (receiver of an invoke, or an interface argument):
	// what is written is decided by the concrete callee's parameter type.
	if !w.relevant && w.callee != nil {
		if _, isIface := tgt.Type().Underlying().(*types.Interface); isIface {
			for d := range w.dyn {
				k := strings.TrimPrefix(d, "*")
				if props, ok := persistentTypes[k]; ok && strings.HasPrefix(d, "*") {
					w.relevant, w.region, w.props = true, k, props
				}
			}
		}
	}
	// Classification is needed for every write (also irrelevant ones) to build
	// parameter summaries: the relevance is decided at the call site.
	w.c = im.classify(tgt, w.fn, w.in.Block())
}

type phiLeaf struct {
	v    ssa.Value
	pred *ssa.BasicBlock
}

func isPointerType(t types.Type) bool {
	_, ok := types.Unalias(t).Underlying().(*types.Pointer)
	return ok
}

func (im *immut) phiLeaves(phi *ssa.Phi, seen map[*ssa.Phi]bool, out *[]phiLeaf) {
	if seen[phi] {
		return
	}
	seen[phi] = true
	for i, e := range phi.Edges {
		e = derefLocal(e)
		if p2, ok := e.(*ssa.Phi); ok {
			im.phiLeaves(p2, seen, out)
			continue
		}
		*out = append(*out, phiLeaf{e, phi.Block().Preds[i]})
	}
}

func (im *immut) run() {
	// fixpoint of parameter-write summaries
	for iter := 0; iter < 12; iter++ {
		changed := false
		im.sites = im.sites[:0]
		for _, fn := range im.c.Funcs {
			for _, w := range im.enumerate(fn) {
				im.decide(w)
				im.sites = append(im.sites, w)
				if w.exempt != "" {
					continue
				}
				// Only parameters of declared functions get summaries (function
				// literals are classified as shared above).
				for p := range w.c.params {
					if im.writesParam[fn] == nil {
						im.writesParam[fn] = map[int]map[string]bool{}
					}
					if im.writesParam[fn][p] == nil {
						im.writesParam[fn][p] = map[string]bool{}
					}
					// through an interface-typed parameter only the recorded dynamic types matter
					add := map[string]bool{"*": true}
					if p < len(fn.Params) {
						if _, isIface := fn.Params[p].Type().Underlying().(*types.Interface); isIface && w.dyn != nil {
							add = w.dyn
						}
					}
					for d := range add {
						if !im.writesParam[fn][p][d] {
							im.writesParam[fn][p][d] = true
							changed = true
						}
					}
				}
			}
		}
		if !changed {
			break
		}
	}
	im.built = true
}

func (im *immut) targetDesc(w *writeSite) string {
	root, through := im.peel(w.target)
	var parts []string
	for i := len(through) - 1; i >= 0; i-- {
		switch x := through[i].(type) {
		case *ssa.FieldAddr:
			_, f, _ := fieldOf(x)
			parts = append(parts, "."+f)
		case *ssa.IndexAddr:
			parts = append(parts, "[]")
		case *ssa.Slice:
			parts = append(parts, "[:]")
		case *ssa.Call:
			if f := staticCallee(x); f != nil {
				parts = append(parts, "."+f.Name()+"()")
			}
		}
	}
	rn := ""
	switch r := root.(type) {
	case *ssa.Parameter:
		rn = r.Name()
	case *ssa.Alloc:
		rn = r.Comment
		if rn == "" {
			rn = "new"
		}
	case *ssa.FreeVar:
		rn = r.Name()
	case *ssa.UnOp:
		if addr, ok := isLoad(r); ok {
			if fa, ok := addr.(*ssa.FieldAddr); ok {
				_, f, _ := fieldOf(fa)
				rn = "*." + f
			} else if a, ok := addr.(*ssa.Alloc); ok {
				rn = a.Comment
			} else {
				rn = "*p"
			}
		}
	case *ssa.Call:
		rn = im.c.calleeName(r) + "()"
	case *ssa.Phi:
		rn = r.Comment
		if rn == "" {
			rn = "phi"
		}
	default:
		rn = fmt.Sprintf("%T", root)
	}
	return rn + strings.Join(parts, "")
}

func init() {
	register(&Rule{
		ID: "IMMUT", Props: []string{"C01", "C02", "C04", "C09", "C11", "C13", "C15", "C17", "C19"}, Floor: 60,
		Doc: "every write (store, append, copy, clear, in-place helper, callee that writes a parameter) into memory of a persistent type goes through a pointer/slice that is fresh in the function, owned by the transaction (txnID-gated constructor, `locked` entry, owned field), or a parameter whose callers are all checked; never through a pointer loaded from shared memory",
		Run: ruleImmut,
	})
	register(&Rule{
		ID: "SCRATCH-FIELDS", Props: []string{"C01"}, Floor: 2,
		Doc: "exemption E1: the writer-scratch field partIndexTxn.tx inside a (shared) partIndex is stored only by partIndex.txn / partIndexTxn.notify and never read by a method reachable from the read API through a *partIndex",
		Run: ruleScratchFields,
	})
}

func ruleImmut(c *Ctx, r *Reporter) {
	im := c.immutEngine()
	type agg struct {
		w   *writeSite
		key string
	}
	ord := map[string]int{}
	n := 0
	for _, w := range im.sites {
		if w.exempt != "" || !w.relevant {
			continue
		}
		n++
		fnn := c.fnName(w.fn)
		base := fmt.Sprintf("%s|%s %s", fnn, w.kind, im.targetDesc(w))
		ord[base]++
		key := base
		if ord[base] > 1 {
			key = fmt.Sprintf("%s~%d", base, ord[base])
		}
		pos := c.posStr(instrPos(w.in))
		props := w.props
		switch {
		case len(w.c.shared) > 0:
			var tr []string
			for _, s := range w.c.shared {
				tr = append(tr, s.msg+" at "+c.posStr(s.pos))
			}
			msg := "write into " + w.region + " through a pointer/slice that is not provably fresh or owned: memory reachable from an earlier snapshot/version may be modified in place"
			if w.callee != nil {
				msg = "passes a pointer/slice that is not provably fresh or owned to " + c.fnName(w.callee) + ", which writes it in place (" + w.region + ")"
			}
			r.badP(props, key, pos, msg, tr...)
		case len(w.c.params) > 0:
			// obligation moved to the callers; exported API entry points cannot be checked at their callers
			ps := []string{}
			for p := range w.c.params {
				if p < len(w.fn.Params) {
					ps = append(ps, w.fn.Params[p].Name())
				}
			}
			sort.Strings(ps)
			if w.fn.Object() != nil && w.fn.Object().Exported() && !decodeMethods[w.fn.Name()] && exportedRecv(w.fn) {
				r.badP(props, key, pos, "exported function writes "+w.region+" through its parameter "+strings.Join(ps, ",")+": callers outside the module cannot be checked (only decode methods may do this)")
			} else {
				r.okP(props, key, pos, "J3: writes through parameter "+strings.Join(ps, ",")+"; every call site in the module is checked with the actual argument")
			}
		default:
			why := "fresh/owned"
			if len(w.c.why) > 0 {
				why = strings.Join(w.c.why, "; ")
			}
			r.okP(props, key, pos, "J1/J2: "+why)
		}
	}
	r.note("%d relevant write sites out of %d enumerated writes in %d functions", n, len(im.sites), len(c.Funcs))
}

func exportedRecv(fn *ssa.Function) bool {
	sig := fn.Signature
	if sig.Recv() == nil {
		return true
	}
	n := namedOf(sig.Recv().Type())
	return n != nil && n.Obj().Exported()
}

func ruleScratchFields(c *Ctx, r *Reporter) {
	for fk, allowed := range scratchFields {
		n := 0
		for _, fn := range c.Funcs {
			for _, ia := range allInstrs(fn) {
				st, ok := ia.In.(*ssa.Store)
				if !ok {
					continue
				}
				fa, ok := st.Addr.(*ssa.FieldAddr)
				if !ok || fieldKeyOf(fa) != fk {
					continue
				}
				n++
				who := c.fnName(topLevel(fn))
				okSite := false
				for _, a := range allowed {
					if a == who {
						okSite = true
					}
				}
				key := fmt.Sprintf("%s|store %s", who, fk)
				if okSite {
					r.ok(key, c.posStr(instrPos(st)), "scratch field stored at an allowed site (table lock held)")
				} else {
					r.bad(key, c.posStr(instrPos(st)), "writer-scratch field "+fk+" is stored outside its allowed sites: it lives inside a partIndex that readers share")
				}
			}
		}
		if n == 0 {
			r.anchorMissing("store to " + fk)
		}
	}
	// no *partIndex method reads .tx
	for _, fn := range c.Funcs {
		if recvTypeName(fn) != "partIndex" {
			continue
		}
		for _, ia := range allInstrs(fn) {
			u, ok := ia.In.(*ssa.UnOp)
			if !ok {
				continue
			}
			if addr, ok := isLoad(u); ok {
				if fa, ok := addr.(*ssa.FieldAddr); ok && fieldKeyOf(fa) == "statedb.partIndexTxn.tx" {
					r.bad(c.fnName(fn)+"|read partIndexTxn.tx", c.posStr(instrPos(u)), "a method of the shared *partIndex reads the writer's scratch transaction: readers would observe uncommitted state")
				}
			}
		}
	}
}

// dynTypeKey names a concrete type as it can sit in an interface: "*pkg.T" or "pkg.T".
func dynTypeKey(t types.Type) string {
	star := ""
	if _, ok := types.Unalias(t).(*types.Pointer); ok {
		star = "*"
	}
	n := namedOf(t)
	if n == nil || n.Obj().Pkg() == nil {
		return star + t.String()
	}
	return star + shortPkg(n.Obj().Pkg().Path()) + "." + n.Obj().Name()
}
