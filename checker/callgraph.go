package main

import (
	"go/types"
	"sort"
	"strings"

	"golang.org/x/tools/go/ssa"
)

// The module call graph. x/tools' CHA/VTA miss every call through
// TableMeta/Table[Obj] into genTable[Obj] because library code never
// instantiates genTable, so the checker resolves calls itself:
//
//	(a) static callees (mapped to their generic origin),
//	(b) interface invokes by method name + arity against every named type of
//	    the module whose pointer method set has that method (over-approximation,
//	    sound for "must not reach" rules),
//	(c) a function creates an edge to each function literal it contains,
//	(d) calls through a func-typed struct field resolve to every function value
//	    stored into that field anywhere in the module; if a stored value is not
//	    a function literal / method value the call is (also) a user callback,
//	(e) other dynamic calls are user callbacks.
type CGEdge struct {
	Caller *ssa.Function
	Callee *ssa.Function // nil for external or callback
	Ext    string        // name of external callee, "callback", or builtin
	Site   ssa.Instruction
	Kind   string // static | iface | closure | field | callback | ext | builtin
	Go     bool   // spawned with `go`
	Defer  bool
}

type CallGraph struct {
	c   *Ctx
	Out map[*ssa.Function][]*CGEdge
	In  map[*ssa.Function][]*CGEdge
	// methodsByName: method name -> module methods (origin functions)
	methodsByName map[string][]*ssa.Function
	// extMethodsByName: method name -> external functions promoted into module
	// types through embedding (e.g. sync.(*Mutex).Unlock for sortableMutex)
	promotedExt map[string][]string
	fieldFuncs  map[string][]*ssa.Function // "pkg.Type.field" -> stored function values
	fieldOpen   map[string]bool            // field also receives values we cannot resolve
}

func (c *Ctx) CG() *CallGraph {
	if c.cg != nil {
		return c.cg
	}
	g := &CallGraph{c: c, Out: map[*ssa.Function][]*CGEdge{}, In: map[*ssa.Function][]*CGEdge{},
		methodsByName: map[string][]*ssa.Function{}, promotedExt: map[string][]string{},
		fieldFuncs: map[string][]*ssa.Function{}, fieldOpen: map[string]bool{}}
	c.cg = g

	// index methods of module named types, including promoted ones
	for _, p := range c.Pkgs {
		scope := p.Types.Scope()
		for _, name := range scope.Names() {
			tn, ok := scope.Lookup(name).(*types.TypeName)
			if !ok || tn.IsAlias() {
				continue
			}
			named, ok := tn.Type().(*types.Named)
			if !ok {
				continue
			}
			if _, isIface := named.Underlying().(*types.Interface); isIface {
				continue
			}
			ms := types.NewMethodSet(types.NewPointer(named))
			for i := 0; i < ms.Len(); i++ {
				sel := ms.At(i)
				fobj, ok := sel.Obj().(*types.Func)
				if !ok {
					continue
				}
				fobj = fobj.Origin()
				if fn := c.byObj[fobj]; fn != nil {
					g.methodsByName[fobj.Name()] = appendUniqueFn(g.methodsByName[fobj.Name()], fn)
				} else if fobj.Pkg() != nil && !strings.HasPrefix(fobj.Pkg().Path(), modPath) {
					// promoted from an embedded external type
					rn := ""
					if sig, ok := fobj.Type().(*types.Signature); ok && sig.Recv() != nil {
						rn = namedTypeName(sig.Recv().Type())
					}
					ext := fobj.Pkg().Path() + ".(" + rn + ")." + fobj.Name()
					g.promotedExt[fobj.Name()] = appendUniqueStr(g.promotedExt[fobj.Name()], ext)
				}
			}
		}
	}

	// function values stored into struct fields (composite literals lower to stores)
	for _, fn := range c.Funcs {
		for _, ia := range allInstrs(fn) {
			st, ok := ia.In.(*ssa.Store)
			if !ok {
				continue
			}
			fa, ok := st.Addr.(*ssa.FieldAddr)
			if !ok {
				continue
			}
			if _, ok := st.Val.Type().Underlying().(*types.Signature); !ok {
				continue
			}
			key := g.fieldKey(fa)
			if key == "" {
				continue
			}
			targets, open := g.funcValueTargets(st.Val)
			for _, t := range targets {
				g.fieldFuncs[key] = appendUniqueFn(g.fieldFuncs[key], t)
			}
			if open {
				g.fieldOpen[key] = true
			}
		}
	}

	for _, fn := range c.Funcs {
		g.addEdges(fn)
	}
	return g
}

func appendUniqueFn(s []*ssa.Function, f *ssa.Function) []*ssa.Function {
	for _, x := range s {
		if x == f {
			return s
		}
	}
	return append(s, f)
}

func appendUniqueStr(s []string, f string) []string {
	for _, x := range s {
		if x == f {
			return s
		}
	}
	return append(s, f)
}

func (g *CallGraph) fieldKey(fa *ssa.FieldAddr) string {
	tn, f, ok := fieldOf(fa)
	if !ok || tn == "" {
		return ""
	}
	pt := fa.X.Type().Underlying().(*types.Pointer)
	n := namedOf(pt.Elem())
	if n == nil || n.Obj().Pkg() == nil || !strings.HasPrefix(n.Obj().Pkg().Path(), modPath) {
		return ""
	}
	return shortPkg(n.Obj().Pkg().Path()) + "." + tn + "." + f
}

// funcValueTargets resolves a function-typed value to module functions.
// open=true means (some of) the value comes from somewhere we cannot see
// (parameter, exported field a user fills, call result): treat as user callback.
func (g *CallGraph) funcValueTargets(v ssa.Value) (targets []*ssa.Function, open bool) {
	seen := map[ssa.Value]bool{}
	var walk func(v ssa.Value)
	walk = func(v ssa.Value) {
		if seen[v] {
			return
		}
		seen[v] = true
		switch x := v.(type) {
		case *ssa.Function:
			g.resolveFuncObj(x, &targets, &open)
		case *ssa.MakeClosure:
			if f, ok := x.Fn.(*ssa.Function); ok {
				g.resolveFuncObj(f, &targets, &open)
			} else {
				open = true
			}
		case *ssa.Phi:
			for _, e := range x.Edges {
				walk(e)
			}
		case *ssa.ChangeType:
			walk(x.X)
		case *ssa.Const:
			// nil func
		default:
			open = true
		}
	}
	walk(v)
	return
}

func (g *CallGraph) resolveFuncObj(f *ssa.Function, targets *[]*ssa.Function, open *bool) {
	if f.Synthetic != "" && f.Synthetic != "range-over-func yield" {
		// bound method wrapper / thunk: look at what it calls
		found := false
		for _, b := range f.Blocks {
			for _, in := range b.Instrs {
				call, ok := in.(ssa.CallInstruction)
				if !ok {
					continue
				}
				com := call.Common()
				if com.IsInvoke() {
					for _, t := range g.resolveInvoke(com) {
						*targets = appendUniqueFn(*targets, t)
						found = true
					}
				} else if sf := staticCallee(call); sf != nil {
					if g.c.inModule(sf) {
						*targets = appendUniqueFn(*targets, sf)
					}
					found = true
				}
			}
		}
		if !found {
			*open = true
		}
		return
	}
	o := origin(f)
	if g.c.inModule(o) {
		*targets = appendUniqueFn(*targets, o)
	}
}

// resolveInvoke returns the module methods an interface call may dispatch to.
func (g *CallGraph) resolveInvoke(com *ssa.CallCommon) []*ssa.Function {
	name := com.Method.Name()
	sig := com.Method.Type().(*types.Signature)
	var out []*ssa.Function
	for _, m := range g.methodsByName[name] {
		ms := m.Signature
		if ms.Params().Len() != sig.Params().Len() || ms.Results().Len() != sig.Results().Len() || ms.Variadic() != sig.Variadic() {
			continue
		}
		// unexported methods only match within the same package
		if !com.Method.Exported() && com.Method.Pkg() != nil && m.Package() != nil && com.Method.Pkg() != m.Package().Pkg {
			continue
		}
		// a non-generic receiver type can be tested exactly against a non-generic interface
		if it, ok := com.Value.Type().Underlying().(*types.Interface); ok {
			if rn := namedOf(ms.Recv().Type()); rn != nil && rn.TypeParams().Len() == 0 && !mentionsTypeParam(it) {
				if !types.Implements(rn, it) && !types.Implements(types.NewPointer(rn), it) {
					continue
				}
			}
		}
		out = append(out, m)
	}
	return out
}

func (g *CallGraph) add(e *CGEdge) {
	g.Out[e.Caller] = append(g.Out[e.Caller], e)
	if e.Callee != nil {
		g.In[e.Callee] = append(g.In[e.Callee], e)
	}
}

func (g *CallGraph) addEdges(fn *ssa.Function) {
	c := g.c
	for _, ia := range allInstrs(fn) {
		// closures created here may be invoked by whoever receives them
		if mc, ok := ia.In.(*ssa.MakeClosure); ok {
			if f, ok := mc.Fn.(*ssa.Function); ok {
				var ts []*ssa.Function
				open := false
				g.resolveFuncObj(f, &ts, &open)
				for _, t := range ts {
					g.add(&CGEdge{Caller: fn, Callee: t, Site: ia.In, Kind: "closure"})
				}
			}
			continue
		}
		call, ok := ia.In.(ssa.CallInstruction)
		if !ok {
			continue
		}
		_, isGo := ia.In.(*ssa.Go)
		_, isDefer := ia.In.(*ssa.Defer)
		com := call.Common()
		mk := func(callee *ssa.Function, ext, kind string) {
			g.add(&CGEdge{Caller: fn, Callee: callee, Ext: ext, Site: ia.In, Kind: kind, Go: isGo, Defer: isDefer})
		}
		if com.IsInvoke() {
			ts := g.resolveInvoke(com)
			for _, t := range ts {
				mk(t, "", "iface")
			}
			for _, ext := range g.promotedExt[com.Method.Name()] {
				mk(nil, ext, "ext")
			}
			// the interface may also be implemented outside the module
			in := namedOf(com.Value.Type())
			userImpl := true
			if in != nil && in.Obj().Pkg() != nil && strings.HasPrefix(in.Obj().Pkg().Path(), modPath) {
				// module interface with unexported methods cannot be implemented outside
				if it, ok := in.Underlying().(*types.Interface); ok {
					for i := 0; i < it.NumMethods(); i++ {
						if !it.Method(i).Exported() {
							userImpl = false
						}
					}
				}
			}
			if userImpl {
				mk(nil, "iface:"+typePkgNameFull(com.Value.Type())+"."+com.Method.Name(), "callback")
			}
			continue
		}
		switch v := com.Value.(type) {
		case *ssa.Builtin:
			mk(nil, "builtin."+v.Name(), "builtin")
		case *ssa.Function:
			o := origin(v)
			if v.Synthetic != "" && !c.inModule(o) {
				// instantiation wrapper of an external generic etc.
				mk(nil, extFnName(v), "ext")
			} else if c.inModule(o) {
				mk(o, "", "static")
			} else {
				mk(nil, extFnName(o), "ext")
			}
		case *ssa.MakeClosure:
			if f, ok := v.Fn.(*ssa.Function); ok {
				var ts []*ssa.Function
				open := false
				g.resolveFuncObj(f, &ts, &open)
				for _, t := range ts {
					mk(t, "", "static")
				}
			}
		default:
			// dynamic call through a value
			key := ""
			src := stripConv(com.Value)
			if addr, ok := isLoad(src); ok {
				if fa, ok := addr.(*ssa.FieldAddr); ok {
					key = g.fieldKey(fa)
				}
			} else if f, ok := src.(*ssa.Field); ok {
				if n := namedOf(f.X.Type()); n != nil && n.Obj().Pkg() != nil && strings.HasPrefix(n.Obj().Pkg().Path(), modPath) {
					_, fname, _ := fieldOf(f)
					key = shortPkg(n.Obj().Pkg().Path()) + "." + n.Obj().Name() + "." + fname
				}
			}
			resolved := false
			if key != "" {
				for _, t := range g.fieldFuncs[key] {
					mk(t, "", "field")
					resolved = true
				}
				if g.fieldOpen[key] || !resolved {
					mk(nil, "callback:"+key, "callback")
				}
			} else {
				ts, open := g.funcValueTargets(com.Value)
				for _, t := range ts {
					mk(t, "", "static")
				}
				if open || len(ts) == 0 {
					// A function type that mentions an unexported type of the module
					// cannot be implemented by user code: resolve by signature.
					if sig, ok := com.Value.Type().Underlying().(*types.Signature); ok && mentionsUnexported(sig) {
						n := 0
						for _, cand := range g.c.Funcs {
							if sigMatches(cand, sig) {
								mk(cand, "", "static")
								n++
							}
						}
						if n == 0 {
							mk(nil, "internal-func-value", "ext")
						}
					} else {
						mk(nil, "callback", "callback")
					}
				}
			}
		}
	}
}

// Reach returns every function reachable from roots (roots included), with one
// witness path each. skip, if non-nil, prunes edges.
func (g *CallGraph) Reach(roots []*ssa.Function, skip func(*CGEdge) bool) map[*ssa.Function]*CGEdge {
	via := map[*ssa.Function]*CGEdge{}
	var q []*ssa.Function
	for _, r := range roots {
		if r == nil {
			continue
		}
		if _, ok := via[r]; !ok {
			via[r] = nil
			q = append(q, r)
		}
	}
	for len(q) > 0 {
		f := q[0]
		q = q[1:]
		for _, e := range g.Out[f] {
			if e.Callee == nil {
				continue
			}
			if skip != nil && skip(e) {
				continue
			}
			if _, ok := via[e.Callee]; !ok {
				via[e.Callee] = e
				q = append(q, e.Callee)
			}
		}
	}
	return via
}

// path renders the witness call path to fn.
func (g *CallGraph) path(via map[*ssa.Function]*CGEdge, fn *ssa.Function) []string {
	var out []string
	for fn != nil {
		e := via[fn]
		if e == nil {
			out = append(out, g.c.fnName(fn)+" (root)")
			break
		}
		out = append(out, g.c.fnName(fn)+"  <- called ("+e.Kind+") at "+g.c.posStr(instrPos(e.Site)))
		fn = e.Caller
	}
	// reverse
	for i, j := 0, len(out)-1; i < j; i, j = i+1, j-1 {
		out[i], out[j] = out[j], out[i]
	}
	return out
}

func sortedFns(c *Ctx, m map[*ssa.Function]*CGEdge) []*ssa.Function {
	var out []*ssa.Function
	for f := range m {
		out = append(out, f)
	}
	sort.Slice(out, func(i, j int) bool { return c.fnName(out[i]) < c.fnName(out[j]) })
	return out
}

// mentionsUnexported: a parameter or result type of sig is (a pointer to) an
// unexported named type of the module.
func mentionsUnexported(sig *types.Signature) bool {
	chk := func(t *types.Tuple) bool {
		for i := 0; i < t.Len(); i++ {
			n := namedOf(t.At(i).Type())
			if n != nil && n.Obj().Pkg() != nil && strings.HasPrefix(n.Obj().Pkg().Path(), modPath) && !n.Obj().Exported() {
				return true
			}
		}
		return false
	}
	return chk(sig.Params()) || chk(sig.Results())
}

// sigMatches: fn (a plain function, or a method used as method expression with
// the receiver as first parameter) has the parameter/result types of sig.
func sigMatches(fn *ssa.Function, sig *types.Signature) bool {
	if fn.Parent() != nil {
		return false
	}
	fs := fn.Signature
	var params []types.Type
	if fs.Recv() != nil {
		params = append(params, fs.Recv().Type())
	}
	for i := 0; i < fs.Params().Len(); i++ {
		params = append(params, fs.Params().At(i).Type())
	}
	if len(params) != sig.Params().Len() || fs.Results().Len() != sig.Results().Len() {
		return false
	}
	for i, p := range params {
		if !types.Identical(p, sig.Params().At(i).Type()) {
			return false
		}
	}
	for i := 0; i < fs.Results().Len(); i++ {
		if !types.Identical(fs.Results().At(i).Type(), sig.Results().At(i).Type()) {
			return false
		}
	}
	return true
}

// mentionsTypeParam: the interface's method signatures mention type parameters
// (interfaces inside generic bodies); exact implementation tests do not apply.
func mentionsTypeParam(it *types.Interface) bool {
	var has func(t types.Type, d int) bool
	has = func(t types.Type, d int) bool {
		if d > 6 || t == nil {
			return false
		}
		switch x := types.Unalias(t).(type) {
		case *types.TypeParam:
			return true
		case *types.Pointer:
			return has(x.Elem(), d+1)
		case *types.Slice:
			return has(x.Elem(), d+1)
		case *types.Named:
			for i := 0; i < x.TypeArgs().Len(); i++ {
				if has(x.TypeArgs().At(i), d+1) {
					return true
				}
			}
		case *types.Signature:
			for i := 0; i < x.Params().Len(); i++ {
				if has(x.Params().At(i).Type(), d+1) {
					return true
				}
			}
			for i := 0; i < x.Results().Len(); i++ {
				if has(x.Results().At(i).Type(), d+1) {
					return true
				}
			}
		}
		return false
	}
	for i := 0; i < it.NumMethods(); i++ {
		if has(it.Method(i).Type(), 0) {
			return true
		}
	}
	return false
}
