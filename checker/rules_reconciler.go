package main

import (
	"fmt"
	"go/token"
	"sort"
	"strings"

	"golang.org/x/tools/go/ssa"
)

func init() {
	register(&Rule{
		ID: "ERR-FLOW", Props: []string{"C14", "C15", "C16"}, Default: []string{"C14"}, Floor: 8,
		Doc: "every error of Operations.Update/Delete and every BatchEntry.Result reaches retries.Add or opResult.err; commitStatus queues a retry for every failed result whose status it wrote; a popped retry is processed; a change or a success clears the retry state; inside a round a consumed change is always processed unless the status filter skips it; a round the changes filled still serves a due retry; the same-request shortcut of commitStatus needs a non-zero identifier",
		Run: ruleErrFlow,
	})
	register(&Rule{
		ID: "TIMER-REARM", Props: []string{"C14", "C16"}, Floor: 4,
		Doc: "every retries method that can change the head of the time-ordered queue re-arms the wake-up timer (Pop always, Add/Clear when the item is at the head); resetTimer arms a timer whenever the queue is non-empty",
		Run: ruleTimerRearm,
	})
	register(&Rule{
		ID: "RETRY-BOOK", Props: []string{"C14", "C15", "C16"}, Default: []string{"C14", "C16"}, Floor: 8,
		Doc: "retries.Add refreshes what changes from failure to failure (object, retry time, attempt count), records the revision of the failing change once per item (origRev, the low watermark) and keeps both heaps complete (time heap re-positioned); Clear forgets the item entirely (backoff starts over); LowWatermark reports 0 only when no failed item remains; the backoff is capped; progress is published from the revisions incremental.run actually processed, the low watermark on every update; a round cut short by IncrementalRoundSize is marked and does not publish the revision it stopped at; validate() rejects a maximum backoff below the minimum; the origin revision of a failed update is the revision of the change (known finding F-AU: it is the observed version's)",
		Run: ruleRetryBook,
	})
	register(&Rule{
		ID: "RECONCILER-WRITES", Props: []string{"C15"}, Floor: 6,
		Doc: "package reconciler writes the reconciled table only by CompareAndSwap on the reconciled revision, by the status-only fallback Insert (revision mismatch, object exists, status still the pending request that was reconciled or this reconciler's own Error), and by the refresh Insert re-checked inside the same write transaction; never Delete/Modify; statuses are only set on cloned objects; a new pending status carries a fresh id",
		Run: ruleReconcilerWrites,
	})
	register(&Rule{
		ID: "PRUNE-GATE", Props: []string{"C15"}, Floor: 3,
		Doc: "Operations.Prune is called only under tableInitialized, which is set only when the table's Initialized watch fires, and is given Table.All of the same snapshot",
		Run: rulePruneGate,
	})
}

func (c *Ctx) fnByName(name string) *ssa.Function {
	for _, f := range c.Funcs {
		if c.fnName(f) == name {
			return f
		}
	}
	return nil
}

func callsIn(c *Ctx, fn *ssa.Function, names ...string) []*ssa.Call {
	var out []*ssa.Call
	for _, ci := range c.callsNamed(fn, names...) {
		if call, ok := ci.(*ssa.Call); ok {
			out = append(out, call)
		}
	}
	return out
}

// nonNilFact: block has fact v != nil (true).
func nonNilFact(b *ssa.BasicBlock, v ssa.Value) bool {
	for _, f := range factsAt(b) {
		bo, ok := f.Cond.(*ssa.BinOp)
		if !ok || bo.X != v || !isNilConst(bo.Y) {
			continue
		}
		if (bo.Op == token.NEQ && f.Val) || (bo.Op == token.EQL && !f.Val) {
			return true
		}
	}
	return false
}

func ruleErrFlow(c *Ctx, r *Reporter) {
	ps := c.fnByName("reconciler.(incremental).processSingle")
	if ps == nil {
		r.anchorMissing("reconciler.(incremental).processSingle")
		return
	}
	// (1) Delete error -> retries.Add on the non-nil edge; Update error -> opResult.err
	for _, op := range []string{"Delete", "Update"} {
		calls := callsIn(c, ps, "iface:reconciler.Operations."+op)
		if len(calls) != 1 {
			r.undecided("reconciler.(incremental).processSingle|Operations."+op, c.posStr(ps.Pos()), fmt.Sprintf("expected one call of Operations.%s, found %d", op, len(calls)))
			continue
		}
		e := calls[0]
		key := "reconciler.(incremental).processSingle|error of Operations." + op + " is kept"
		good := false
		if op == "Delete" {
			for _, add := range callsIn(c, ps, "reconciler.(retries).Add") {
				args := add.Call.Args
				if args[len(args)-1] == ssa.Value(e) && nonNilFact(add.Block(), e) {
					// the test must be reached on every path after the call
					good = true
					// and flagged as delete
					if cst, ok := args[4].(*ssa.Const); !ok || cst.Value == nil || cst.Value.String() != "true" {
						good = false
					}
				}
			}
		} else {
			for _, ia := range allInstrs(ps) {
				if st, ok := ia.In.(*ssa.Store); ok && isFieldAddrOf(st.Addr, "opResult", "err") && st.Val == ssa.Value(e) && c.instrPostDominates(st, e) {
					good = true
				}
			}
		}
		r.check(good, key, c.posStr(instrPos(e)), "the error is queued for retry (Delete) / recorded in the result committed later (Update)", "the error returned by Operations."+op+" is dropped on some path: the failed object is never retried")
	}
	// (6) success clears
	okClear := false
	for _, cl := range callsIn(c, ps, "reconciler.(retries).Clear") {
		for _, f := range factsAt(cl.Block()) {
			if bo, ok := f.Cond.(*ssa.BinOp); ok && bo.Op == token.EQL && f.Val && isNilConst(bo.Y) {
				okClear = true
			}
		}
	}
	r.check(okClear, "reconciler.(incremental).processSingle|success clears the retry state", c.posStr(ps.Pos()), "retries.Clear(obj) on err == nil", "a successful operation does not clear the object's retry state: it keeps being retried / its backoff never restarts")

	// (2) batch
	if bf := c.fnByName("reconciler.(incremental).batch"); bf != nil {
		adds := callsIn(c, bf, "reconciler.(retries).Add")
		good := false
		for _, add := range adds {
			last := add.Call.Args[len(add.Call.Args)-1]
			if p, ok := isLoad(last); ok {
				if fa, ok := p.(*ssa.FieldAddr); ok {
					if _, f, _ := fieldOf(fa); f == "Result" && nonNilFact(add.Block(), resultLoadIn(add.Block(), fa)) {
						good = true
					}
				}
			}
		}
		if !good {
			// accept the fact being on a separate load of the same field
			for _, add := range adds {
				for _, f := range factsAt(add.Block()) {
					if bo, ok := f.Cond.(*ssa.BinOp); ok && bo.Op == token.NEQ && f.Val && isNilConst(bo.Y) {
						if p, ok := isLoad(bo.X); ok {
							if fa, ok := p.(*ssa.FieldAddr); ok {
								if _, fld, _ := fieldOf(fa); fld == "Result" {
									good = true
								}
							}
						}
					}
				}
			}
		}
		r.check(good, "reconciler.(incremental).batch|failed batch deletes are queued", c.posStr(bf.Pos()), "entry.Result != nil -> retries.Add(..., entry.Result)", "a failed DeleteBatch entry is not queued for retry")
		good = false
		for _, ia := range allInstrs(bf) {
			if st, ok := ia.In.(*ssa.Store); ok && isFieldAddrOf(st.Addr, "opResult", "err") {
				if p, ok := isLoad(st.Val); ok {
					if fa, ok := p.(*ssa.FieldAddr); ok {
						if _, f, _ := fieldOf(fa); f == "Result" {
							good = true
						}
					}
				}
			}
		}
		r.check(good, "reconciler.(incremental).batch|batch update results are recorded", c.posStr(bf.Pos()), "opResult.err = entry.Result for every update entry", "the result of an UpdateBatch entry is not recorded: its failure is never committed nor retried")
	} else {
		r.anchorMissing("reconciler.(incremental).batch")
	}
	// (3) commitStatus queues retries for failures it committed
	if cs := c.fnByName("reconciler.(incremental).commitStatus"); cs != nil {
		good := false
		for _, add := range callsIn(c, cs, "reconciler.(retries).Add") {
			last := add.Call.Args[len(add.Call.Args)-1]
			if p, ok := isLoad(last); ok {
				if fa, ok := p.(*ssa.FieldAddr); ok {
					if tn, f, _ := fieldOf(fa); tn == "opResult" && f == "err" {
						// under result.err != nil
						for _, f2 := range factsAt(add.Block()) {
							if bo, ok := f2.Cond.(*ssa.BinOp); ok && bo.Op == token.NEQ && f2.Val && isNilConst(bo.Y) {
								if q, ok := isLoad(bo.X); ok {
									if fb, ok := q.(*ssa.FieldAddr); ok {
										if _, fn2, _ := fieldOf(fb); fn2 == "err" {
											good = true
										}
									}
								}
							}
						}
					}
				}
			}
		}
		// the retry is queued with the revision the object has after ALL of this iteration's
		// writes to it: Table.Revision is read after the last write (it dominates no later write)
		goodRev := false
		for _, add := range callsIn(c, cs, "reconciler.(retries).Add") {
			if len(add.Call.Args) < 3 {
				continue
			}
			rc, ok := add.Call.Args[2].(*ssa.Call)
			if !ok || !rc.Call.IsInvoke() || rc.Call.Method.Name() != "Revision" {
				continue
			}
			goodRev = true
			for _, ia := range allInstrs(cs) {
				w, ok := ia.In.(*ssa.Call)
				if !ok || !w.Call.IsInvoke() {
					continue
				}
				switch w.Call.Method.Name() {
				case "Insert", "InsertWatch", "Modify", "CompareAndSwap", "Delete", "CompareAndDelete", "DeleteAll":
					if instrDominates(rc, w) {
						goodRev = false
					}
				}
			}
		}
		r.checkP([]string{"C14", "C15"}, goodRev, "reconciler.(incremental).commitStatus|retry carries the revision after the status write", c.posStr(cs.Pos()), "retries.Add gets Table.Revision(wtxn) read after the last write of the iteration", "the revision stored with the retry is read before a later write to the object in the same iteration (the same-pending-id fallback Insert): the retry's status commit compares against a stale revision, its result is dropped and the object is never retried again")
		// the retry is queued with the version of the object that was written: once the status went
		// onto a newer version through the fallback Insert, result.original is stale
		{
			var next ssa.Instruction
			for _, ia := range allInstrs(cs) {
				if nx, ok := ia.In.(*ssa.Next); ok {
					next = nx
				}
			}
			avoid := map[ssa.Instruction]bool{}
			if next != nil {
				avoid[next] = true
			}
			fromOriginal := func(v ssa.Value) bool {
				for i := 0; i < 6; i++ {
					switch x := v.(type) {
					case *ssa.TypeAssert:
						v = x.X
						continue
					case *ssa.MakeInterface:
						v = x.X
						continue
					case *ssa.ChangeInterface:
						v = x.X
						continue
					case *ssa.Field:
						_, f, _ := fieldOf(x)
						return f == "original"
					case *ssa.UnOp:
						if fa, ok := x.X.(*ssa.FieldAddr); ok && x.Op == token.MUL {
							_, f, _ := fieldOf(fa)
							return f == "original"
						}
					}
					break
				}
				return false
			}
			stale := ""
			nAdd := 0
			for _, add := range callsIn(c, cs, "reconciler.(retries).Add") {
				if len(add.Call.Args) < 2 {
					continue
				}
				nAdd++
				type leaf struct {
					v    ssa.Value
					pred *ssa.BasicBlock
				}
				var leaves []leaf
				var walk func(v ssa.Value, pred *ssa.BasicBlock, depth int)
				walk = func(v ssa.Value, pred *ssa.BasicBlock, depth int) {
					if phi, ok := v.(*ssa.Phi); ok && depth < 6 {
						for i, e := range phi.Edges {
							walk(e, phi.Block().Preds[i], depth+1)
						}
						return
					}
					leaves = append(leaves, leaf{v, pred})
				}
				walk(add.Call.Args[1], nil, 0)
				for _, ia := range allInstrs(cs) {
					w, ok := ia.In.(*ssa.Call)
					if !ok || !w.Call.IsInvoke() || w.Call.Method.Name() != "Insert" {
						continue
					}
					for _, lf := range leaves {
						if !fromOriginal(lf.v) {
							continue
						}
						var target ssa.Instruction = add
						if lf.pred != nil {
							target = lf.pred.Instrs[len(lf.pred.Instrs)-1]
						}
						if reachesAvoiding(w, target, avoid) {
							stale = c.posStr(instrPos(add))
						}
					}
				}
			}
			r.checkP([]string{"C15"}, nAdd > 0 && stale == "", "reconciler.(incremental).commitStatus|retry uses the version that was written", c.posStr(cs.Pos()), "after the fallback Insert the retry is queued with the inserted object, otherwise with the reconciled one", "after the status was written onto a newer version of the object (same-pending-id fallback Insert) the retry is still queued with result.original, but with the new revision: when the retry succeeds its status commit passes the revision check and writes the stale version back over the newer one (another reconciler's status is reverted, newer data is lost)")
		}
		// Objects in Error are processed only through the retry queue (single()/batch() skip them),
		// and processSingle forgets the retry on success: the result of a retry whose status commit
		// lost the revision check must therefore still be applied while the table shows this
		// reconciler's own Error - otherwise the object stays in Error with nothing queued.
		{
			applied := false
			for _, ia := range allInstrs(cs) {
				bo, ok := ia.In.(*ssa.BinOp)
				if !ok || bo.Op != token.EQL {
					continue
				}
				isErrKind := func(v ssa.Value) bool {
					if a, ok := isLoad(v); ok {
						if g, ok := a.(*ssa.Global); ok && g.Name() == "StatusKindError" {
							return true
						}
					}
					return false
				}
				isKind := func(v ssa.Value) bool {
					if a, ok := isLoad(v); ok {
						if fa, ok := a.(*ssa.FieldAddr); ok {
							if tn, f, _ := fieldOf(fa); tn == "Status" && f == "Kind" {
								return true
							}
						}
					}
					if fl, ok := v.(*ssa.Field); ok {
						if tn, f, _ := fieldOf(fl); tn == "Status" && f == "Kind" {
							return true
						}
					}
					return false
				}
				if !(isErrKind(bo.X) && isKind(bo.Y)) && !(isErrKind(bo.Y) && isKind(bo.X)) {
					continue
				}
				// its true edge leads to the fallback Insert
				for _, ib := range allInstrs(cs) {
					w, ok := ib.In.(*ssa.Call)
					if !ok || !w.Call.IsInvoke() || w.Call.Method.Name() != "Insert" {
						continue
					}
					for _, ref := range *bo.Referrers() {
						if iff, ok := ref.(*ssa.If); ok {
							t := iff.Block().Succs[0]
							if t == w.Block() || blockReachesAvoidingBlock(t, w.Block(), iff.Block()) {
								applied = true
							}
						}
					}
				}
			}
			// the same for a refresh: the request that was reconciled may be Refreshing (with its own id)
			refresh := false
			for _, ia := range allInstrs(cs) {
				switch x := ia.In.(type) {
				case *ssa.Call:
					if c.calleeName(x) == "reconciler.(Status).IsPendingOrRefreshing" {
						refresh = true
					}
				case *ssa.BinOp:
					for _, op := range []ssa.Value{x.X, x.Y} {
						if a, ok := isLoad(op); ok {
							if g, ok := a.(*ssa.Global); ok && g.Name() == "StatusKindRefreshing" && x.Op == token.EQL {
								refresh = true
							}
						}
					}
				}
			}
			// the "same request" shortcut compares identifiers; 0 is the identifier of every status that was
			// not made by StatusPending() (decoded from YAML/JSON, a zero StatusSet) and identifies nothing
			{
				isIDField := func(v ssa.Value) bool {
					if a, ok := isLoad(v); ok {
						if fa, ok := a.(*ssa.FieldAddr); ok {
							if tn, f, _ := fieldOf(fa); (tn == "Status" && f == "ID") || (tn == "opResult" && f == "id") {
								return true
							}
						}
					}
					if fl, ok := v.(*ssa.Field); ok {
						if tn, f, _ := fieldOf(fl); (tn == "Status" && f == "ID") || (tn == "opResult" && f == "id") {
							return true
						}
					}
					return false
				}
				nonZeroFact := func(f edgeFact) bool {
					bo, ok := f.Cond.(*ssa.BinOp)
					if !ok {
						return false
					}
					var other ssa.Value
					switch {
					case isIDField(bo.X):
						other = bo.Y
					case isIDField(bo.Y):
						other = bo.X
					default:
						return false
					}
					if k, ok := constInt(other); !ok || k != 0 {
						return false
					}
					switch bo.Op {
					case token.NEQ, token.GTR, token.LSS:
						return f.Val
					case token.EQL:
						return !f.Val
					}
					return false
				}
				nEq := 0
				for _, ia := range allInstrs(cs) {
					bo, ok := ia.In.(*ssa.BinOp)
					if !ok || bo.Op != token.EQL || !isIDField(bo.X) || !isIDField(bo.Y) {
						continue
					}
					nEq++
					guarded := false
					for _, f := range factsAt(bo.Block()) {
						if nonZeroFact(f) {
							guarded = true
						}
					}
					// or tested right after, on the equal edge
					if !guarded {
						for _, ib := range allInstrs(cs) {
							nz, ok := ib.In.(*ssa.BinOp)
							if !ok || nz == bo {
								continue
							}
							if !nonZeroFact(edgeFact{Cond: nz, Val: true}) && !nonZeroFact(edgeFact{Cond: nz, Val: false}) {
								continue
							}
							for _, f := range factsAt(nz.Block()) {
								if f.Cond == ssa.Value(bo) && f.Val {
									guarded = true
								}
							}
						}
					}
					r.checkP([]string{"C15"}, guarded, fmt.Sprintf("reconciler.(incremental).commitStatus|the same-request shortcut needs a real identifier#%d", nEq), c.posStr(instrPos(bo)), "the identifiers are compared only when they are not 0", "the fallback write treats equal identifiers as 'only the status changed' even when both are 0 - the identifier of every status not made by StatusPending() (`kind: Pending` decoded from YAML/JSON, a zero StatusSet): when such an object is replaced by a new version while Update runs, the stale result is written onto the new version, which is marked Done without ever having been passed to Update")
				}
				if nEq == 0 {
					r.note("commitStatus compares no request identifiers (no same-request shortcut)")
				}
			}
			r.checkP([]string{"C16", "C14"}, refresh, "reconciler.(incremental).commitStatus|the result of a refresh is applied while the object still shows the Refreshing request", c.posStr(cs.Pos()), "the fallback write accepts the Refreshing request (same id) like the Pending one", "when the status commit of a refresh loses the revision check to an unrelated write, the result is dropped because the fallback only recognises a Pending request: a failed refresh gets no Error status and no queued retry, the object (still Refreshing) comes straight back through the change stream and the failed operation is attempted again at once, without the minimum backoff")
			r.checkP([]string{"C14", "C15"}, applied, "reconciler.(incremental).commitStatus|a retry's result is applied while the object still shows this reconciler's Error", c.posStr(cs.Pos()), "the fallback write is also taken when the current status is the Error written for the previous attempt", "when the status commit of a retry loses the revision check to an unrelated write (another reconciler's status), the result is dropped although the object still carries this reconciler's Error: the retry was already forgotten (success) or is not re-queued (failure), objects in Error are skipped by the change stream, so the object stays in Error for ever")
		}
		r.check(good, "reconciler.(incremental).commitStatus|failed results are queued", c.posStr(cs.Pos()), "result.err != nil (status written) -> retries.Add(..., result.err)", "commitStatus does not queue a retry for a failed result: the object stays in Error forever")
	} else {
		r.anchorMissing("reconciler.(incremental).commitStatus")
	}
	// (4) processRetries: Pop then processSingle of the popped item
	if pr := c.fnByName("reconciler.(incremental).processRetries"); pr != nil {
		pops := callsIn(c, pr, "reconciler.(retries).Pop")
		procs := callsIn(c, pr, "reconciler.(incremental).processSingle")
		tops := callsIn(c, pr, "reconciler.(retries).Top")
		good := len(pops) == 1 && len(procs) == 1 && len(tops) == 1
		if good {
			good = c.instrPostDominates(procs[0], pops[0]) || (procs[0].Block() == pops[0].Block() && instrIndex(procs[0]) > instrIndex(pops[0]))
			// the processed object comes from the item returned by Top
			fromTop := false
			for _, a := range procs[0].Call.Args {
				if derivesFromTuple(a, tops[0], map[ssa.Value]bool{}, 0) {
					fromTop = true
				}
			}
			good = good && fromTop
		}
		// the retries are not at the mercy of the change stream: a round the changes filled up to
		// IncrementalRoundSize still looks at the retry queue (what is left of the round, but at least one)
		if len(tops) == 1 {
			var walk func(v ssa.Value, seen map[ssa.Value]bool) (rs, nr, clamped bool)
			walk = func(v ssa.Value, seen map[ssa.Value]bool) (rs, nr, clamped bool) {
				if seen[v] || len(seen) > 64 {
					return
				}
				seen[v] = true
				if a, ok := isLoad(v); ok {
					if _, f, ok := fieldOf(a); ok {
						return f == "IncrementalRoundSize", f == "numReconciled", false
					}
					if al, ok := a.(*ssa.Alloc); ok {
						for _, st := range storesTo(pr, al) {
							r2, n2, c2 := walk(st.Val, seen)
							rs, nr, clamped = rs || r2, nr || n2, clamped || c2
						}
					}
					return
				}
				switch x := v.(type) {
				case *ssa.BinOp:
					r1, n1, c1 := walk(x.X, seen)
					r2, n2, c2 := walk(x.Y, seen)
					return r1 || r2, n1 || n2, c1 || c2
				case *ssa.Convert:
					return walk(x.X, seen)
				case *ssa.Phi:
					for _, e := range x.Edges {
						// `if budget < 1 { budget = 1 }`: a positive constant merged in is a clamp
						if k, ok := constInt(e); ok && k > 0 {
							clamped = true
							continue
						}
						r2, n2, c2 := walk(e, seen)
						rs, nr, clamped = rs || r2, nr || n2, clamped || c2
					}
				case *ssa.Call:
					if b, ok := x.Call.Value.(*ssa.Builtin); ok && b.Name() == "max" {
						for _, a := range x.Call.Args {
							if k, ok := constInt(a); ok && k > 0 {
								return false, false, true
							}
						}
						for _, a := range x.Call.Args {
							r2, n2, c2 := walk(a, seen)
							rs, nr, clamped = rs || r2, nr || n2, clamped || c2
						}
					}
				}
				return
			}
			starved := false
			for _, f := range factsAt(tops[0].Block()) {
				bo, ok := f.Cond.(*ssa.BinOp)
				if !ok {
					continue
				}
				rs, nr, clamped := walk(bo, map[ssa.Value]bool{})
				if rs && nr && !clamped {
					starved = true
				}
			}
			r.checkP([]string{"C14"}, !starved, "reconciler.(incremental).processRetries|a round filled by changes still serves a due retry", c.posStr(instrPos(tops[0])), "the look at the retry queue does not depend on numReconciled < IncrementalRoundSize alone", "the retry queue is only looked at with what the changes left of the round (numReconciled < IncrementalRoundSize): while the change stream fills every round - objects marked for refresh faster than they are reconciled do that without any user activity - a failed Update or Delete is never retried, although operations stopped failing")
		}
		r.check(good, "reconciler.(incremental).processRetries|popped item is processed",c.posStr(pr.Pos()), "Pop() is always followed by processSingle of the item that was at the top", "an item is popped from the retry queue without being processed: the failed object is forgotten")
	} else {
		r.anchorMissing("reconciler.(incremental).processRetries")
	}
	// (5)+(7) single / batch loop bodies
	for _, spec := range []struct{ fn, process string }{
		{"single", "reconciler.(incremental).processSingle"},
		{"batch", "builtin.append"},
	} {
		fn := c.fnByName("reconciler.(incremental)." + spec.fn)
		if fn == nil {
			r.anchorMissing("reconciler.(incremental)." + spec.fn)
			continue
		}
		var body *ssa.Function
		for _, a := range fn.AnonFuncs {
			if a.Synthetic == "range-over-func yield" {
				body = a
			}
		}
		if body == nil {
			r.undecided("reconciler.(incremental)."+spec.fn+"|loop body", c.posStr(fn.Pos()), "the loop over changes is not a range-over-func body")
			continue
		}
		name := c.fnName(fn)
		procs := callsIn(c, body, spec.process)
		clears := callsIn(c, body, "reconciler.(retries).Clear")
		okClear := len(clears) >= 1 && len(procs) >= 1
		for _, p := range procs {
			dom := false
			for _, cl := range clears {
				if instrDominates(cl, p) {
					dom = true
				}
			}
			if !dom {
				okClear = false
			}
		}
		r.checkP([]string{"C14", "C15", "C16"}, okClear, name+"|a changed object's retry state is cleared before processing", c.posStr(body.Pos()), "retries.Clear(obj) dominates the processing of the change", "a new version of an object is processed without clearing its pending retry: the stale retry later re-applies the old version / the backoff continues from the old failures")
		// every way out of the body passes processing, except the status filter
		isProc := map[ssa.Instruction]bool{}
		for _, p := range procs {
			isProc[p] = true
		}
		var leak *ssa.Return
		seen := map[*ssa.BasicBlock]bool{}
		var walk func(b *ssa.BasicBlock)
		walk = func(b *ssa.BasicBlock) {
			if seen[b] || leak != nil {
				return
			}
			seen[b] = true
			for _, in := range b.Instrs {
				if isProc[in] {
					return
				}
				if ret, ok := in.(*ssa.Return); ok {
					leak = ret
					return
				}
				if _, ok := in.(*ssa.Panic); ok {
					return
				}
			}
			for i, s := range b.Succs {
				if iff, ok := b.Instrs[len(b.Instrs)-1].(*ssa.If); ok {
					if call, ok := iff.Cond.(*ssa.Call); ok {
						if sf := staticCallee(call); sf != nil && sf.Name() == "IsPendingOrRefreshing" && i == 1 {
							continue // the documented filter: not pending -> skip
						}
					}
				}
				walk(s)
			}
		}
		walk(body.Blocks[0])
		if leak == nil {
			r.ok(name+"|a consumed change is processed", c.posStr(body.Pos()), "every path through the loop body processes the change, except the not-pending filter")
		} else {
			r.bad(name+"|a consumed change is processed", c.posStr(instrPos(leak)), "the loop body can be left (round limit, other guard) after the change iterator has already advanced past this change but before the change was processed: the object is never reconciled")
		}
	}
}

func resultLoadIn(b *ssa.BasicBlock, fa *ssa.FieldAddr) ssa.Value {
	return nil
}

func ruleTimerRearm(c *Ctx, r *Reporter) {
	pop := c.fnByName("reconciler.(retries).Pop")
	if pop != nil {
		pi := callsIn(c, pop, "reconciler.(retryPrioQueue).PopItem")
		rt := callsIn(c, pop, "reconciler.(retries).resetTimer")
		good := len(pi) == 1 && len(rt) >= 1 && c.instrPostDominates(rt[0], pi[0])
		r.check(good, "reconciler.(retries).Pop|re-arms", c.posStr(pop.Pos()), "resetTimer() always follows PopItem()", "Pop removes the queue head without re-arming the timer: the next retry is never woken")
	} else {
		r.anchorMissing("reconciler.(retries).Pop")
	}
	headFact := func(b *ssa.BasicBlock) bool {
		for _, f := range factsAt(b) {
			if bo, ok := f.Cond.(*ssa.BinOp); ok && bo.Op == token.EQL && f.Val {
				if k, ok := constInt(bo.Y); ok && k == 0 {
					return true
				}
			}
		}
		return false
	}
	for _, n := range []string{"Add", "Clear"} {
		fn := c.fnByName("reconciler.(retries)." + n)
		if fn == nil {
			r.anchorMissing("reconciler.(retries)." + n)
			continue
		}
		rt := callsIn(c, fn, "reconciler.(retries).resetTimer")
		good := false
		for _, x := range rt {
			if headFact(x.Block()) {
				good = true
			}
		}
		r.check(good, "reconciler.(retries)."+n+"|re-arms when the head changed", c.posStr(fn.Pos()), "resetTimer() under index == 0", n+" can change the head of the retry queue without re-arming the timer")
	}
	if rt := c.fnByName("reconciler.(retries).resetTimer"); rt != nil {
		af := callsIn(c, rt, "time.AfterFunc")
		rs := callsIn(c, rt, "time.(Timer).Reset")
		// once the queue is known to be non-empty, every way out of resetTimer arms the timer:
		// Stop() has disarmed a live timer, so "it is already set early enough" is not an option
		armed := true
		var leak ssa.Instruction
		isArm := func(in ssa.Instruction) bool {
			if call, ok := in.(*ssa.Call); ok {
				n := c.calleeName(call)
				return n == "time.AfterFunc" || n == "time.(Timer).Reset"
			}
			return false
		}
		nIf := 0
		for _, ia := range allInstrs(rt) {
			iff, ok := ia.In.(*ssa.If)
			if !ok {
				continue
			}
			bo, ok := iff.Cond.(*ssa.BinOp)
			if !ok {
				continue
			}
			call, ok := bo.X.(*ssa.Call)
			if !ok || c.calleeName(call) != "reconciler.(retryPrioQueue).Len" {
				continue
			}
			k, ok := constInt(bo.Y)
			if !ok || k != 0 {
				continue
			}
			var succ *ssa.BasicBlock
			switch bo.Op {
			case token.GTR, token.NEQ:
				succ = iff.Block().Succs[0]
			case token.EQL, token.LEQ:
				succ = iff.Block().Succs[1]
			default:
				continue
			}
			nIf++
			if len(succ.Instrs) == 0 {
				continue
			}
			first := succ.Instrs[0]
			if isArm(first) {
				continue
			}
			if ret := reachesReturnAvoiding(first, isArm, nil); ret != nil {
				armed = false
				leak = ret
			}
		}
		lp := c.posStr(rt.Pos())
		if leak != nil {
			lp = c.posStr(instrPos(leak))
		}
		r.check(armed && nIf >= 1, "reconciler.(retries).resetTimer|a non-empty queue always leaves an armed timer", lp, "every path on which the queue is non-empty creates or resets the timer", "resetTimer can return with a non-empty queue and no armed timer (the live timer was stopped at the top and is only re-armed under an extra condition): after the head of the queue is cleared the remaining retries are never woken")
		r.check(len(af) == 1 && len(rs) == 1, "reconciler.(retries).resetTimer|arms", c.posStr(rt.Pos()), "a new timer is created when none is live and the live one is Reset otherwise", "resetTimer no longer arms/reset the timer on both branches")
	} else {
		r.anchorMissing("reconciler.(retries).resetTimer")
	}
}

func ruleRetryBook(c *Ctx, r *Reporter) {
	add := c.fnByName("reconciler.(retries).Add")
	if add == nil {
		r.anchorMissing("reconciler.(retries).Add")
		return
	}
	// the item: phi(lookup result, fresh)
	fields := map[string]bool{}
	cond := map[string]bool{}
	created := map[string]bool{}
	for _, ia := range allInstrs(add) {
		st, ok := ia.In.(*ssa.Store)
		if !ok {
			continue
		}
		fa, ok := st.Addr.(*ssa.FieldAddr)
		if !ok {
			continue
		}
		tn, f, _ := fieldOf(fa)
		if tn != "retryItem" {
			continue
		}
		if _, isAlloc := fa.X.(*ssa.Alloc); isAlloc {
			// initialisation of the fresh item's literal: set at creation
			created[f] = true
			continue
		}
		fields[f] = true
		// conditional? (only under the creation branch)
		for _, fct := range factsAt(st.Block()) {
			if ex, ok := fct.Cond.(*ssa.Extract); ok {
				if _, ok := ex.Tuple.(*ssa.Lookup); ok {
					cond[f] = true
				}
			}
			if u, ok := fct.Cond.(*ssa.UnOp); ok && u.Op == token.NOT {
				cond[f] = true
			}
		}
	}
	// what changes from failure to failure must be refreshed on every Add: the object (after the
	// same-pending-id fallback the status sits on a newer version, F-L), the retry time and the
	// attempt counter
	for _, f := range []string{"object", "retryAt", "numRetries"} {
		props := []string{"C14", "C16"}
		if f == "object" {
			props = append(props, "C15")
		}
		r.checkP(props, fields[f] && !cond[f], "reconciler.(retries).Add|refreshes item."+f, c.posStr(add.Pos()), "item."+f+" is updated on every Add", "item."+f+" is not refreshed on every failure (only when the item is created, or never): a later retry runs with a stale object / is not re-scheduled with a longer backoff")
	}
	// what is fixed for the life of an item (a change of the object clears the item) only has to be set
	for _, f := range []string{"rev", "delete"} {
		r.checkP([]string{"C14", "C15"}, fields[f] || created[f], "reconciler.(retries).Add|sets item."+f, c.posStr(add.Pos()), "item."+f+" is set (at creation or on every Add)", "item."+f+" is never set: retries run the wrong operation / with revision 0")
	}
	// the revision of the failing change is recorded when the item is created and kept over
	// repeated failures: every attempt's status write bumps the object's revision, and a
	// watermark that followed it would pass the revision of the change that is still failing
	r.checkP([]string{"C16"}, (created["origRev"] || cond["origRev"]) && !(fields["origRev"] && !cond["origRev"]), "reconciler.(retries).Add|item.origRev is the revision of the failing change", c.posStr(add.Pos()), "origRev is recorded when the item is created and not overwritten by later failures of the same change", "item.origRev is overwritten on every failure with the revision of the previous attempt's status write: after the second failure the retry low watermark is past the revision of the change that is still failing, and a caller of WaitUntilReconciled that waits for `both revisions past mine` is told its change was reconciled successfully")
	// both heaps maintained on both edges
	for _, q := range []string{"queue", "revQueue"} {
		fix, push := false, false
		for _, n := range []string{"Fix", "PushItem"} {
			for _, call := range callsIn(c, add, "reconciler.(retryPrioQueue)."+n) {
				if _, ok := loadOfField(call.Call.Args[0], "retries", q); ok {
					if n == "Fix" {
						fix = true
					} else {
						push = true
					}
				}
			}
		}
		// the time-ordered heap's key (retryAt) changes on every Add, so an item that is already queued
		// must be re-positioned; the revision-ordered heap's key (origRev) is fixed for the life of
		// the item (see above), so there only the push of a new item is required
		need := push && (fix || q == "revQueue")
		r.check(need, "reconciler.(retries).Add|"+q+" re-positioned or pushed", c.posStr(add.Pos()), "a new item is pushed into "+q+" and, where its ordering key changes, an existing one is Fix()ed", "Add does not keep "+q+" complete and ordered when an item is (re-)added: the wake-up order / retry low watermark is wrong")
	}
	// backoff starts over after a change or a success: the callers of Clear
	for _, spec := range [][2]string{{"single", "a new version of the object"}, {"batch", "a new version of the object (batch mode)"}} {
		fn := c.fnByName("reconciler.(incremental)." + spec[0])
		n := 0
		if fn != nil {
			for _, f := range withAnon(fn) {
				n += len(callsIn(c, f, "reconciler.(retries).Clear"))
			}
		}
		r.checkP([]string{"C16"}, n > 0, "reconciler.(incremental)."+spec[0]+"|retry state cleared on change", "-", "retries.Clear is called for "+spec[1], "the retry state is not cleared when "+spec[1]+" arrives: the backoff continues from the old failures instead of starting over")
	}
	if cl := c.fnByName("reconciler.(retries).Clear"); cl != nil {
		del := false
		for _, call := range c.callsNamed(cl, "builtin.delete") {
			if _, ok := loadOfField(call.Common().Args[0], "retries", "items"); ok {
				del = true
			}
		}
		r.check(del, "reconciler.(retries).Clear|forgets the item", c.posStr(cl.Pos()), "delete(rq.items, key): the attempt counter starts over", "Clear does not delete the item from the map: the backoff does not start over after a change or success")
	} else {
		r.anchorMissing("reconciler.(retries).Clear")
	}
	if lw := c.fnByName("reconciler.(retries).LowWatermark"); lw != nil {
		good := true
		n := 0
		for _, ret := range returnsOf(lw) {
			n++
			if k, ok := constInt(ret.Results[0]); ok && k == 0 {
				// only when the rev queue is empty
				empty := false
				for _, f := range factsAt(ret.Block()) {
					if bo, ok := f.Cond.(*ssa.BinOp); ok && bo.Op == token.GTR && !f.Val {
						empty = true
					}
				}
				if !empty {
					good = false
				}
			} else if p, ok := isLoad(ret.Results[0]); ok {
				if fa, ok := p.(*ssa.FieldAddr); !ok || fieldKeyOf(fa) != "reconciler.retryItem.origRev" {
					good = false
				}
			} else {
				good = false
			}
		}
		r.checkP([]string{"C16"}, good && n == 2, "reconciler.(retries).LowWatermark|0 iff empty", c.posStr(lw.Pos()), "returns the oldest failed item's origRev, and 0 only when the revision queue is exhausted", "LowWatermark can report 0 while failed objects await retry (or something other than origRev)")
	} else {
		r.anchorMissing("reconciler.(retries).LowWatermark")
	}
	if d := c.fnByName("reconciler.(exponentialBackoff).Duration"); d != nil {
		capped := false
		for _, ret := range returnsOf(d) {
			if _, ok := loadOfField(ret.Results[0], "exponentialBackoff", "max"); ok {
				for _, f := range factsAt(ret.Block()) {
					if bo, ok := f.Cond.(*ssa.BinOp); ok && bo.Op == token.GTR && f.Val {
						capped = true
					}
				}
			}
		}
		r.checkP([]string{"C16"}, capped, "reconciler.(exponentialBackoff).Duration|capped", c.posStr(d.Pos()), "dur > max -> max", "the backoff is not capped by the configured maximum")
	} else {
		r.anchorMissing("reconciler.(exponentialBackoff).Duration")
	}
	// progress published from run()'s results
	if rl := c.fnByName("reconciler.(reconciler).reconcileLoop"); rl != nil {
		runs := callsIn(c, rl, "reconciler.(incremental).run")
		ups := callsIn(c, rl, "reconciler.(progressTracker).update")
		good := len(runs) == 1 && len(ups) == 1
		if good {
			a := ups[0].Call.Args
			e1, ok1 := a[1].(*ssa.Extract)
			e2, ok2 := a[2].(*ssa.Extract)
			good = ok1 && ok2 && e1.Tuple == ssa.Value(runs[0]) && e2.Tuple == ssa.Value(runs[0]) && e1.Index == 1 && e2.Index == 2
		}
		r.checkP([]string{"C16"}, good, "reconciler.(reconciler).reconcileLoop|progress = what run() processed", c.posStr(rl.Pos()), "progress.update(lastRevision, retryLowWatermark) takes both values from incremental.run", "the progress published to WaitUntilReconciled is not the revision incremental.run actually processed: waiters return before their changes were attempted")
	} else {
		r.anchorMissing("reconciler.(reconciler).reconcileLoop")
	}
	// the low watermark is published on every update, whatever the revision of the round was
	// (a round that only processed retries reports revision 0)
	if up := c.fnByName("reconciler.(progressTracker).update"); up != nil && len(up.Params) == 3 {
		var cmp ssa.Instruction
		for _, ia := range allInstrs(up) {
			bo, ok := ia.In.(*ssa.BinOp)
			if !ok || (bo.Op != token.NEQ && bo.Op != token.EQL) {
				continue
			}
			_, okx := loadOfField(bo.X, "progressTracker", "retryLowWatermark")
			_, oky := loadOfField(bo.Y, "progressTracker", "retryLowWatermark")
			if (okx && bo.Y == ssa.Value(up.Params[2])) || (oky && bo.X == ssa.Value(up.Params[2])) {
				cmp = bo
			}
		}
		good := false
		if cmp != nil {
			good = true
			// no return reachable from the entry without passing the comparison
			first := up.Blocks[0].Instrs[0]
			if first != cmp {
				if leak := reachesReturnAvoiding(first, func(in ssa.Instruction) bool { return in == cmp }, nil); leak != nil {
					good = false
				}
			}
		}
		r.checkP([]string{"C16"}, good, "reconciler.(progressTracker).update|low watermark published regardless of the revision", c.posStr(up.Pos()), "every call compares and stores the retry low watermark", "an update can return without looking at the retry low watermark (e.g. when the round's revision did not advance): after a retry-only round WaitUntilReconciled keeps reporting a stale non-zero watermark")
	} else {
		r.anchorMissing("reconciler.(progressTracker).update")
	}
	// a round cut short by IncrementalRoundSize is told apart from one that reached the end of its
	// stream: the objects left over may carry changes older than the last revision taken (a status
	// write by another reconciler of the same object gives it a new revision and moves it behind),
	// so the revision the round stopped at must not be published as "everything up to here attempted"
	{
		var cutField string
		for _, name := range []string{"single", "batch"} {
			fn := c.fnByName("reconciler.(incremental)." + name)
			if fn == nil {
				continue // reported by ERR-FLOW
			}
			var cut *ssa.BinOp
			for _, f := range withAnon(fn) {
				for _, ia := range allInstrs(f) {
					bo, ok := ia.In.(*ssa.BinOp)
					if !ok {
						continue
					}
					switch bo.Op {
					case token.GEQ, token.GTR, token.LEQ, token.LSS, token.EQL:
					default:
						continue
					}
					isRS := func(v ssa.Value) bool {
						a, ok := isLoad(v)
						if !ok {
							return false
						}
						_, f, ok := fieldOf(a)
						return ok && f == "IncrementalRoundSize"
					}
					if isRS(bo.X) || isRS(bo.Y) {
						cut = bo
					}
				}
			}
			key := "reconciler.(incremental)." + name + "|a round cut short by the round size is marked as such"
			if cut == nil {
				r.undecidedP([]string{"C16"}, key, c.posStr(fn.Pos()), "no comparison with IncrementalRoundSize found")
				continue
			}
			// the edge taken when the limit is reached
			var iff *ssa.If
			for _, ref := range *cut.Referrers() {
				if i, ok := ref.(*ssa.If); ok {
					iff = i
				}
			}
			if iff == nil {
				r.undecidedP([]string{"C16"}, key, c.posStr(instrPos(cut)), "the comparison does not decide a branch")
				continue
			}
			// which edge means "limit reached": numReconciled >= size, or size <= numReconciled
			rsLeft := false
			if a, ok := isLoad(cut.X); ok {
				if _, f, ok := fieldOf(a); ok && f == "IncrementalRoundSize" {
					rsLeft = true
				}
			}
			onTrue := cut.Op == token.GEQ || cut.Op == token.GTR || cut.Op == token.EQL
			if rsLeft {
				onTrue = cut.Op == token.LEQ || cut.Op == token.LSS || cut.Op == token.EQL
			}
			limit := iff.Block().Succs[0]
			if !onTrue {
				limit = iff.Block().Succs[1]
			}
			marked := false
			for _, in := range limit.Instrs {
				st, ok := in.(*ssa.Store)
				if !ok {
					continue
				}
				switch a := st.Addr.(type) {
				case *ssa.FieldAddr:
					if tn, f, ok := fieldOf(a); ok && tn == "incremental" && f != "numReconciled" {
						marked = true
						cutField = f
					}
				case *ssa.FreeVar:
					if !strings.HasPrefix(a.Name(), "jump$") {
						marked = true
					}
				case *ssa.Alloc:
					if !strings.HasPrefix(a.Comment, "jump$") {
						marked = true
					}
				}
			}
			r.checkP([]string{"C16"}, marked, key, c.posStr(instrPos(cut)), "the exit taken at the round-size limit records that the stream was not exhausted", "the loop leaves at the round-size limit exactly like at the end of the stream: run() publishes the revision it stopped at as attempted, although objects left over can carry older changes (another reconciler's status write re-stamps an object and moves it behind younger ones) - WaitUntilReconciled(rev) returns without error before Update was ever called for a change <= rev")
		}
		if cutField != "" {
			if run := c.fnByName("reconciler.(incremental).run"); run != nil {
				tested := false
				for _, ia := range allInstrs(run) {
					iff, ok := ia.In.(*ssa.If)
					if !ok {
						continue
					}
					cond, _ := stripNot(iff.Cond, true)
					if _, ok := loadOfField(cond, "incremental", cutField); ok {
						tested = true
					}
				}
				r.checkP([]string{"C16"}, tested, "reconciler.(incremental).run|a cut round does not publish the revision it stopped at", c.posStr(run.Pos()), "run() branches on incremental."+cutField+" before returning the round's revision", "run() never looks at incremental."+cutField+": the revision a cut round stopped at is published as attempted and WaitUntilReconciled returns before older changes of left-over objects were attempted")
			}
		}
	}
	// the low watermark is "the revision of the oldest change among the failed ones": what commitStatus
	// records for a failed update is opResult.rev, the revision of the object version this reconciler
	// observed - any later write to the object, including the status write of another reconciler of
	// the same object, has already moved that revision past the user's change
	if cs := c.fnByName("reconciler.(incremental).commitStatus"); cs != nil {
		for i, call := range callsIn(c, cs, "reconciler.(retries).Add") {
			if len(call.Call.Args) < 4 {
				continue
			}
			_, observed := loadOfField(call.Call.Args[3], "opResult", "rev")
			if fl, ok := call.Call.Args[3].(*ssa.Field); ok {
				if tn, f, _ := fieldOf(fl); tn == "opResult" && f == "rev" {
					observed = true
				}
			}
			r.checkP([]string{"C16"}, !observed, fmt.Sprintf("reconciler.(incremental).commitStatus|the low watermark of a failed update is the revision of the change#%d", i+1), c.posStr(instrPos(call)), "the origin revision does not come from the observed version's revision", "the origin revision recorded for a failed update is the revision of the object version the reconciler observed; with several reconcilers on one object (StatusSet) the other reconciler's status write gives the object a newer revision before this one sees it, so the reported retry low watermark lies past the user's change: a caller waiting until revision and low watermark are both past its change is told it succeeded while the object is in Error awaiting retry")
		}
	}
	// a failed item stays in the by-revision heap (the low watermark) until it is forgotten: only Clear
	// removes it, LowWatermark may drop entries that Clear left stale; Pop takes it from the time heap only
	// (the item is re-added by commitStatus after the watermark of the round has been read)
	{
		allowed := map[string]bool{"reconciler.(retries).Clear": true, "reconciler.(retries).LowWatermark": true}
		n := 0
		for _, fn := range c.Funcs {
			if fn.Package() == nil || shortPkg(fn.Package().Pkg.Path()) != "reconciler" {
				continue
			}
			ord := 0
			for _, ia := range allInstrs(fn) {
				call, ok := ia.In.(*ssa.Call)
				if !ok || len(call.Call.Args) == 0 {
					continue
				}
				sc := staticCallee(call)
				if sc == nil || recvTypeName(origin(sc)) != "retryPrioQueue" || (sc.Name() != "Remove" && sc.Name() != "PopItem") {
					continue
				}
				if _, ok := loadOfField(call.Call.Args[0], "retries", "revQueue"); !ok {
					continue
				}
				n++
				ord++
				name := c.fnName(topLevel(fn))
				r.checkP([]string{"C16"}, allowed[name], fmt.Sprintf("%s|removal from the by-revision heap#%d", c.fnName(fn), ord), c.posStr(instrPos(call)), "only Clear (and LowWatermark for stale entries) take items out of the heap the low watermark is read from", "an item is taken out of the by-revision heap outside Clear/LowWatermark: between Pop and the re-add in commitStatus the failed object is in neither heap, and the round's retry low watermark - read in between - is 0 (or the next-oldest failure) although the object still awaits retry")
			}
		}
		if n < 2 {
			r.undecidedP([]string{"C16"}, "reconciler.(retries)|removals from the by-revision heap", "", fmt.Sprintf("expected at least 2 removal sites (Clear, LowWatermark), found %d", n))
		}
	}
	// the configuration is rejected when the maximum backoff is below the minimum: Duration() caps at
	// the maximum, so every retry would come sooner than the configured minimum
	if v := c.fnByName("reconciler.(config).validate"); v != nil {
		related := false
		for _, ia := range allInstrs(v) {
			bo, ok := ia.In.(*ssa.BinOp)
			if !ok {
				continue
			}
			switch bo.Op {
			case token.LSS, token.GTR, token.LEQ, token.GEQ:
			default:
				continue
			}
			fld := func(v ssa.Value) string {
				if a, ok := isLoad(v); ok {
					if _, f, ok := fieldOf(a); ok {
						return f
					}
				}
				if fl, ok := v.(*ssa.Field); ok {
					if _, f, ok := fieldOf(fl); ok {
						return f
					}
				}
				return ""
			}
			x, y := fld(bo.X), fld(bo.Y)
			if (x == "RetryBackoffMinDuration" && y == "RetryBackoffMaxDuration") || (y == "RetryBackoffMinDuration" && x == "RetryBackoffMaxDuration") {
				for _, ref := range *bo.Referrers() {
					if _, ok := ref.(*ssa.If); ok {
						related = true
					}
				}
			}
		}
		r.checkP([]string{"C16"}, related, "reconciler.(config).validate|maximum backoff not below the minimum", c.posStr(v.Pos()), "validate compares RetryBackoffMaxDuration with RetryBackoffMinDuration", "validate accepts RetryBackoffMaxDuration < RetryBackoffMinDuration: the backoff is capped by the maximum, so every retry comes after the maximum - sooner than the configured minimum backoff")
	} else {
		r.anchorMissing("reconciler.(config).validate")
	}
}

func ruleReconcilerWrites(c *Ctx, r *Reporter) {
	n := 0
	for _, fn := range c.Funcs {
		if fn.Package() == nil || shortPkg(fn.Package().Pkg.Path()) != "reconciler" {
			continue
		}
		for _, ia := range allInstrs(fn) {
			call, ok := ia.In.(*ssa.Call)
			if !ok || !call.Call.IsInvoke() {
				continue
			}
			tn := typePkgNameFull(call.Call.Value.Type())
			if tn != "statedb.RWTable" {
				continue
			}
			m := call.Call.Method.Name()
			switch m {
			case "Insert", "InsertWatch", "Modify", "CompareAndSwap", "Delete", "CompareAndDelete", "DeleteAll":
			default:
				continue
			}
			n++
			who := c.fnName(topLevel(fn))
			key := fmt.Sprintf("%s|table.%s", who, m)
			pos := c.posStr(instrPos(call))
			switch {
			case m == "CompareAndSwap" && who == "reconciler.(incremental).commitStatus":
				// guard revision is result.rev
				good := false
				if p, ok := isLoad(call.Call.Args[1]); ok {
					if fa, ok := p.(*ssa.FieldAddr); ok && fieldKeyOf(fa) == "reconciler.opResult.rev" {
						good = true
					}
				}
				r.check(good, key, pos, "status written with CompareAndSwap on the revision that was reconciled", "the status is not written with CompareAndSwap guarded by the reconciled revision: a newer version of the object is overwritten")
			case m == "Insert" && who == "reconciler.(incremental).commitStatus":
				// guard on every way into the block: revision mismatch on an existing object, and the
				// object's status is either still the pending request that was reconciled (same id) or
				// the Error this reconciler wrote for its previous attempt
				collect := func(facts []edgeFact) []string {
					need := map[string]bool{"errors.Is": false, "exists": false, "Kind": false}
					pendingKind, errorKind, id := false, false, false
					_ = pendingKind
					for _, f := range facts {
						if !f.Val {
							continue
						}
						switch x := f.Cond.(type) {
						case *ssa.Call:
							if c.calleeName(x) == "errors.Is" {
								need["errors.Is"] = true
							}
							// the request that was reconciled: Pending or Refreshing, each with its own id
							if c.calleeName(x) == "reconciler.(Status).IsPendingOrRefreshing" {
								pendingKind = true
							}
						case *ssa.Extract:
							need["exists"] = true
						case *ssa.BinOp:
							isKind, isID := false, false
							glob := ""
							for _, op := range []ssa.Value{x.X, x.Y} {
								if p, ok := isLoad(op); ok {
									if fa, ok := p.(*ssa.FieldAddr); ok {
										_, fld, _ := fieldOf(fa)
										if fld == "Kind" || fld == "kind" {
											isKind = true
										}
										if fld == "ID" || fld == "id" {
											isID = true
										}
									}
									if g, ok := p.(*ssa.Global); ok {
										glob = g.Name()
									}
								}
								if fl, ok := op.(*ssa.Field); ok {
									_, fld, _ := fieldOf(fl)
									if fld == "Kind" || fld == "kind" {
										isKind = true
									}
								}
							}
							if isKind && x.Op == token.EQL {
								switch glob {
								case "StatusKindPending":
									pendingKind = true
								case "StatusKindError":
									errorKind = true
								}
							}
							if isID && x.Op == token.EQL {
								id = true
							}
						}
					}
					if (pendingKind && id) || errorKind {
						need["Kind"] = true
					}
					var miss []string
					for k, v := range need {
						if !v {
							miss = append(miss, k)
						}
					}
					sort.Strings(miss)
					return miss
				}
				var miss []string
				blk := call.Block()
				if len(blk.Preds) <= 1 {
					miss = collect(factsAt(blk))
				} else {
					for _, p := range blk.Preds {
						facts := append([]edgeFact{}, factsAt(p)...)
						if ef, ok := edgeFactOn(p, blk); ok {
							facts = append(facts, ef)
						}
						if m2 := collect(facts); len(m2) > 0 {
							miss = m2
						}
					}
				}
				r.check(len(miss) == 0, key, pos, "fallback Insert only for a revision mismatch on an existing object whose status is still the pending request that was reconciled (same id) or this reconciler's own Error", "the status-only fallback Insert lacks a guard ("+strings.Join(miss, ",")+"; Kind = `Pending with the same id` or `Error`): a stale result overwrites a version that was changed meanwhile, or re-creates a deleted object")
			case m == "Insert" && who == "reconciler.(reconciler).refreshLoop":
				// under ok && rev == newRev where (obj,newRev,ok) = Table.Get(wtxn,...) with the txn used for Insert
				good := false
				wtxn := call.Call.Args[0]
				for _, f := range factsAt(call.Block()) {
					if bo, ok := f.Cond.(*ssa.BinOp); ok && bo.Op == token.EQL && f.Val {
						for _, op := range []ssa.Value{bo.X, bo.Y} {
							if ex, ok := op.(*ssa.Extract); ok {
								if g, ok := ex.Tuple.(*ssa.Call); ok && g.Call.IsInvoke() && g.Call.Method.Name() == "Get" {
									if stripConv(g.Call.Args[0]) == stripConv(wtxn) {
										good = true
									}
								}
							}
						}
					}
				}
				r.check(good, key, pos, "the refresh Insert re-checks the revision with a Get through the same write transaction", "the refresh Insert is not guarded by a revision re-check made inside the same write transaction: an update committed in between is overwritten (or a deleted object re-created)")
			default:
				r.bad(key, pos, "package reconciler performs a table write outside the three sanctioned status write-backs")
			}
		}
	}
	if n < 3 {
		r.undecided("writes", "-", fmt.Sprintf("expected at least 3 table writes in package reconciler, found %d", n))
	}
	// SetObjectStatus only on clones
	for _, fn := range c.Funcs {
		if fn.Package() == nil || shortPkg(fn.Package().Pkg.Path()) != "reconciler" {
			continue
		}
		for _, ia := range allInstrs(fn) {
			call, ok := ia.In.(*ssa.Call)
			if !ok {
				continue
			}
			p, ok := isLoad(call.Call.Value)
			if !ok {
				continue
			}
			fa, ok := p.(*ssa.FieldAddr)
			if !ok {
				continue
			}
			if _, f, _ := fieldOf(fa); f != "SetObjectStatus" {
				continue
			}
			who := c.fnName(topLevel(fn))
			key := who + "|SetObjectStatus on a clone"
			arg := call.Call.Args[0]
			isClone := func(v ssa.Value) bool {
				seen := map[ssa.Value]bool{}
				var walk func(v ssa.Value) bool
				walk = func(v ssa.Value) bool {
					if seen[v] {
						return true
					}
					seen[v] = true
					switch x := v.(type) {
					case *ssa.Call:
						if q, ok := isLoad(x.Call.Value); ok {
							if fb, ok := q.(*ssa.FieldAddr); ok {
								if _, f, _ := fieldOf(fb); f == "CloneObject" || f == "SetObjectStatus" {
									if f == "SetObjectStatus" {
										return walk(x.Call.Args[0])
									}
									return true
								}
							}
						}
					case *ssa.Phi:
						for _, e := range x.Edges {
							if !walk(e) {
								return false
							}
						}
						return true
					case *ssa.Extract:
						// key of incr.results (clones inserted by processSingle/batch)
						if nx, ok := x.Tuple.(*ssa.Next); ok {
							if rg, ok := nx.Iter.(*ssa.Range); ok {
								if _, ok := loadOfField(rg.X, "incremental", "results"); ok {
									return true
								}
							}
						}
					}
					return false
				}
				return walk(v)
			}
			r.check(isClone(arg), key, c.posStr(instrPos(call)), "the status is set on a CloneObject result (or a key of incr.results, which holds clones)", "SetObjectStatus is applied to an object read from the table: the stored (immutable) object is modified in place")
		}
	}
	// results map keys are clones
	if ps := c.fnByName("reconciler.(incremental).processSingle"); ps != nil {
		good := false
		for _, ia := range allInstrs(ps) {
			if mu, ok := ia.In.(*ssa.MapUpdate); ok {
				if _, ok := loadOfField(mu.Map, "incremental", "results"); ok {
					if call, ok := mu.Key.(*ssa.Call); ok {
						if q, ok := isLoad(call.Call.Value); ok {
							if fb, ok := q.(*ssa.FieldAddr); ok {
								if _, f, _ := fieldOf(fb); f == "CloneObject" {
									good = true
								}
							}
						}
					}
				}
			}
		}
		r.check(good, "reconciler.(incremental).processSingle|results keyed by the clone", c.posStr(ps.Pos()), "incr.results[clone]", "the result is not recorded under the cloned object")
	}
	// Pending() hands out a fresh id to every named status
	if pf := c.fnByName("reconciler.(StatusSet).Pending"); pf != nil {
		idFresh, idSpread := false, false
		for _, ia := range allInstrs(pf) {
			st, ok := ia.In.(*ssa.Store)
			if !ok {
				continue
			}
			fa, ok := st.Addr.(*ssa.FieldAddr)
			if !ok {
				continue
			}
			tn, f, _ := fieldOf(fa)
			if tn == "StatusSet" && f == "id" {
				if call, ok := st.Val.(*ssa.Call); ok {
					if sf := staticCallee(call); sf != nil && sf.Name() == "nextID" {
						idFresh = true
						// every result carries the fresh id: no return before it is drawn (a set
						// without named statuses reports `Pending` with the set's id for every reconciler)
						for _, ret := range returnsOf(pf) {
							if !instrDominates(st, ret) {
								idFresh = false
							}
						}
					}
				}
			}
			if f == "ID" {
				if _, ok := loadOfField(st.Val, "StatusSet", "id"); ok && blockReaches(st.Block(), st.Block()) {
					idSpread = true
					// every status gets the new id: no filter on its current kind
					for _, fct := range factsAt(st.Block()) {
						if bo, ok := fct.Cond.(*ssa.BinOp); ok {
							for _, op := range []ssa.Value{bo.X, bo.Y} {
								if p, ok := isLoad(op); ok {
									if fa2, ok := p.(*ssa.FieldAddr); ok {
										if _, f2, _ := fieldOf(fa2); f2 == "Kind" || f2 == "kind" {
											idSpread = false
										}
									}
								}
							}
						}
					}
				}
			}
		}
		r.check(idFresh && idSpread, "reconciler.(StatusSet).Pending|fresh pending id", c.posStr(pf.Pos()), "Pending() draws a new id and stamps it on every named status", "Pending() does not give the statuses a fresh pending id: commitStatus' `still the same pending request` test cannot tell a new user change from the request it reconciled, and writes Done over the newer version")
	} else {
		r.anchorMissing("reconciler.(StatusSet).Pending")
	}
}

func rulePruneGate(c *Ctx, r *Reporter) {
	rl := c.fnByName("reconciler.(reconciler).reconcileLoop")
	if rl == nil {
		r.anchorMissing("reconciler.(reconciler).reconcileLoop")
		return
	}
	prunes := callsIn(c, rl, "reconciler.(reconciler).prune")
	if len(prunes) != 1 {
		r.undecided("reconciler.(reconciler).reconcileLoop|prune call", c.posStr(rl.Pos()), fmt.Sprintf("expected one call of r.prune, found %d", len(prunes)))
		return
	}
	p := prunes[0]
	// tableInitialized: a phi/alloc that is true only from the select case on the init watch
	var initVar ssa.Value
	gated := false
	for _, f := range factsAt(p.Block()) {
		if !f.Val {
			continue
		}
		// the gate: a boolean local whose `true` originates in the select case on the init watch
		if phi, ok := f.Cond.(*ssa.Phi); ok && boolPhiTrueFromInitWatch(phi) {
			gated = true
			initVar = phi
		}
	}
	r.check(gated, "reconciler.(reconciler).reconcileLoop|prune only when initialized", c.posStr(instrPos(p)), "r.prune is dominated by tableInitialized == true", "Operations.Prune can run while the table still has pending initializers: it is given partial contents and deletes live objects from the target")
	// where does tableInitialized become true?
	if phi, ok := initVar.(*ssa.Phi); ok {
		good := true
		nTrue := 0
		seen := map[*ssa.Phi]bool{}
		var walk func(ph *ssa.Phi)
		walk = func(ph *ssa.Phi) {
			if seen[ph] {
				return
			}
			seen[ph] = true
			for i, e := range ph.Edges {
				switch x := e.(type) {
				case *ssa.Phi:
					walk(x)
				case *ssa.Const:
					if x.Value != nil && x.Value.String() == "true" {
						nTrue++
						// the edge must come from the select case of the init watch
						pred := ph.Block().Preds[i]
						okSel := false
						for _, f := range append(factsAt(pred), func() []edgeFact {
							if f, ok := edgeFactOn(pred, ph.Block()); ok {
								return []edgeFact{f}
							}
							return nil
						}()...) {
							if bo, ok := f.Cond.(*ssa.BinOp); ok && bo.Op == token.EQL && f.Val {
								if ex, ok := bo.X.(*ssa.Extract); ok {
									if sel, ok := ex.Tuple.(*ssa.Select); ok {
										if k, ok := constInt(bo.Y); ok && int(k) < len(sel.States) {
											ch := sel.States[k].Chan
											if isInitWatch(ch, map[ssa.Value]bool{}) {
												okSel = true
											}
										}
									}
								}
							}
						}
						if !okSel {
							good = false
						}
					}
				}
			}
		}
		walk(phi)
		r.check(good && nTrue >= 1, "reconciler.(reconciler).reconcileLoop|initialized only from the init watch", c.posStr(rl.Pos()), "tableInitialized becomes true only in the select case receiving from Table.Initialized()'s channel", "tableInitialized is set somewhere other than the select case on the table's Initialized() channel")
	} else {
		r.undecided("reconciler.(reconciler).reconcileLoop|initialized only from the init watch", c.posStr(rl.Pos()), "tableInitialized is not a plain local variable")
	}
	// prune passes Table.All(txn) of its own txn
	if pf := c.fnByName("reconciler.(reconciler).prune"); pf != nil {
		good := false
		for _, call := range callsIn(c, pf, "iface:reconciler.Operations.Prune") {
			if len(call.Call.Args) == 3 {
				if all, ok := call.Call.Args[2].(*ssa.Call); ok && all.Call.IsInvoke() && all.Call.Method.Name() == "All" {
					if all.Call.Args[0] == call.Call.Args[1] && call.Call.Args[1] == ssa.Value(pf.Params[2]) {
						good = true
					}
				}
			}
		}
		r.check(good, "reconciler.(reconciler).prune|complete contents of the same snapshot", c.posStr(pf.Pos()), "Operations.Prune(ctx, txn, Table.All(txn))", "Prune is not given Table.All of the snapshot it was called with (filtered or different snapshot): live objects are pruned from the target")
	} else {
		r.anchorMissing("reconciler.(reconciler).prune")
	}
}

func isInitWatch(v ssa.Value, seen map[ssa.Value]bool) bool {
	if seen[v] {
		return false
	}
	seen[v] = true
	switch x := v.(type) {
	case *ssa.Extract:
		if call, ok := x.Tuple.(*ssa.Call); ok && call.Call.IsInvoke() && call.Call.Method.Name() == "Initialized" && x.Index == 1 {
			return true
		}
	case *ssa.Phi:
		for _, e := range x.Edges {
			if isInitWatch(e, seen) {
				return true
			}
		}
	}
	return false
}

// boolPhiTrueFromInitWatch: some `true` constant flowing into the phi comes
// from the select case that receives from Table.Initialized()'s channel.
func boolPhiTrueFromInitWatch(phi *ssa.Phi) bool {
	seen := map[*ssa.Phi]bool{}
	found := false
	var walk func(ph *ssa.Phi)
	walk = func(ph *ssa.Phi) {
		if seen[ph] {
			return
		}
		seen[ph] = true
		for i, e := range ph.Edges {
			switch x := e.(type) {
			case *ssa.Phi:
				walk(x)
			case *ssa.Const:
				if x.Value == nil || x.Value.String() != "true" {
					continue
				}
				pred := ph.Block().Preds[i]
				fs := factsAt(pred)
				if f, ok := edgeFactOn(pred, ph.Block()); ok {
					fs = append(fs, f)
				}
				for _, f := range fs {
					if bo, ok := f.Cond.(*ssa.BinOp); ok && bo.Op == token.EQL && f.Val {
						if ex, ok := bo.X.(*ssa.Extract); ok {
							if sel, ok := ex.Tuple.(*ssa.Select); ok {
								if k, ok := constInt(bo.Y); ok && int(k) < len(sel.States) && isInitWatch(sel.States[k].Chan, map[ssa.Value]bool{}) {
									found = true
								}
							}
						}
					}
				}
			}
		}
	}
	walk(phi)
	return found
}

// blockReachesAvoidingBlock: path from a to b that does not pass through block avoid.
func blockReachesAvoidingBlock(a, b, avoid *ssa.BasicBlock) bool {
	seen := map[*ssa.BasicBlock]bool{avoid: true}
	var walk func(x *ssa.BasicBlock) bool
	walk = func(x *ssa.BasicBlock) bool {
		if x == b {
			return true
		}
		if seen[x] {
			return false
		}
		seen[x] = true
		for _, s := range x.Succs {
			if walk(s) {
				return true
			}
		}
		return false
	}
	return walk(a)
}
