package main

import (
	"fmt"
	"go/constant"
	"go/token"
	"go/types"
	"strings"

	"golang.org/x/tools/go/ssa"
)

// ---- callee naming ----

// extFnName names a function outside the module: "pkgpath.(Recv).Name".
func extFnName(fn *ssa.Function) string {
	if o := fn.Origin(); o != nil {
		fn = o
	}
	pk := ""
	if fn.Pkg != nil {
		pk = fn.Pkg.Pkg.Path()
	} else if fn.Object() != nil && fn.Object().Pkg() != nil {
		pk = fn.Object().Pkg().Path()
	}
	if r := recvTypeName(fn); r != "" {
		return fmt.Sprintf("%s.(%s).%s", pk, r, fn.Name())
	}
	return pk + "." + fn.Name()
}

// calleeName returns a stable name for what a call instruction calls.
//   - module function:  "statedb.(writeTxnState).modify"
//   - outside function: "sync.(Mutex).Lock", "slices.Clone"
//   - interface invoke: "iface:statedb.TableMeta.tablePos"
//   - builtin:          "builtin.append"
//   - closure value:    "closure:<fnName>" when the value is a MakeClosure/function literal
//   - anything else:    "dynamic"
func (c *Ctx) calleeName(call ssa.CallInstruction) string {
	com := call.Common()
	if com.IsInvoke() {
		return "iface:" + typePkgNameFull(com.Value.Type()) + "." + com.Method.Name()
	}
	switch v := com.Value.(type) {
	case *ssa.Builtin:
		return "builtin." + v.Name()
	case *ssa.Function:
		o := origin(v)
		if c.inModule(o) {
			return c.fnName(o)
		}
		return extFnName(o)
	case *ssa.MakeClosure:
		if f, ok := v.Fn.(*ssa.Function); ok {
			return "closure:" + c.fnName(origin(f))
		}
	}
	return "dynamic"
}

func typePkgNameFull(t types.Type) string {
	n := namedOf(t)
	if n == nil {
		return t.String()
	}
	if n.Obj().Pkg() == nil {
		return n.Obj().Name()
	}
	p := n.Obj().Pkg().Path()
	if p == modPath || strings.HasPrefix(p, modPath+"/") {
		p = shortPkg(p)
	}
	return p + "." + n.Obj().Name()
}

// staticCallee returns the origin ssa.Function called, or nil.
func staticCallee(call ssa.CallInstruction) *ssa.Function {
	com := call.Common()
	if com.IsInvoke() {
		return nil
	}
	switch v := com.Value.(type) {
	case *ssa.Function:
		return origin(v)
	case *ssa.MakeClosure:
		if f, ok := v.Fn.(*ssa.Function); ok {
			return origin(f)
		}
	}
	return nil
}

// callArgs returns the actual arguments including the receiver as first
// element for method calls (static or invoke).
func callArgs(call ssa.CallInstruction) []ssa.Value {
	com := call.Common()
	if com.IsInvoke() {
		return append([]ssa.Value{com.Value}, com.Args...)
	}
	return com.Args
}

// ---- instruction iteration ----

type instrAt struct {
	B   *ssa.BasicBlock
	Idx int
	In  ssa.Instruction
}

func allInstrs(fn *ssa.Function) []instrAt {
	var out []instrAt
	for _, b := range fn.Blocks {
		for i, in := range b.Instrs {
			out = append(out, instrAt{b, i, in})
		}
	}
	return out
}

// callsNamed returns the call instructions in fn (not in nested literals)
// whose calleeName equals one of names.
func (c *Ctx) callsNamed(fn *ssa.Function, names ...string) []ssa.CallInstruction {
	var out []ssa.CallInstruction
	for _, ia := range allInstrs(fn) {
		call, ok := ia.In.(ssa.CallInstruction)
		if !ok {
			continue
		}
		n := c.calleeName(call)
		for _, w := range names {
			if n == w {
				out = append(out, call)
			}
		}
	}
	return out
}

// withAnon returns fn and all function literals nested in it.
func withAnon(fn *ssa.Function) []*ssa.Function {
	out := []*ssa.Function{fn}
	for _, a := range fn.AnonFuncs {
		out = append(out, withAnon(a)...)
	}
	return out
}

func instrIndex(in ssa.Instruction) int {
	for i, x := range in.Block().Instrs {
		if x == in {
			return i
		}
	}
	return -1
}

// instrDominates: a executes before b on every path reaching b.
func instrDominates(a, b ssa.Instruction) bool {
	if a.Block() == b.Block() {
		return instrIndex(a) < instrIndex(b)
	}
	return a.Block().Dominates(b.Block())
}

// ---- post-dominators ----

type postDom struct {
	fn    *ssa.Function
	ipdom map[*ssa.BasicBlock]*ssa.BasicBlock // nil = virtual exit
	exits map[*ssa.BasicBlock]bool
	order map[*ssa.BasicBlock]int
}

// isPanicBlock: block ends in Panic, or in a call that never returns followed by unreachable.
func isPanicBlock(b *ssa.BasicBlock) bool {
	if len(b.Instrs) == 0 {
		return false
	}
	_, ok := b.Instrs[len(b.Instrs)-1].(*ssa.Panic)
	return ok
}

func isReturnBlock(b *ssa.BasicBlock) bool {
	if len(b.Instrs) == 0 {
		return false
	}
	_, ok := b.Instrs[len(b.Instrs)-1].(*ssa.Return)
	return ok
}

// postDominators computes immediate post-dominators with a virtual exit that
// joins all Return blocks. Panic blocks are not exits (they discharge pairing
// obligations), so a block that only leads to panic is post-dominated by
// nothing and is treated as not reaching the exit.
func (c *Ctx) postDominators(fn *ssa.Function) *postDom {
	if pd, ok := c.postdoms[fn]; ok {
		return pd
	}
	pd := &postDom{fn: fn, ipdom: map[*ssa.BasicBlock]*ssa.BasicBlock{}, exits: map[*ssa.BasicBlock]bool{}, order: map[*ssa.BasicBlock]int{}}
	// reverse postorder on the reverse graph from the exits
	var order []*ssa.BasicBlock
	seen := map[*ssa.BasicBlock]bool{}
	var dfs func(b *ssa.BasicBlock)
	dfs = func(b *ssa.BasicBlock) {
		seen[b] = true
		for _, p := range b.Preds {
			if !seen[p] {
				dfs(p)
			}
		}
		order = append(order, b)
	}
	for _, b := range fn.Blocks {
		if isReturnBlock(b) {
			pd.exits[b] = true
			if !seen[b] {
				dfs(b)
			}
		}
	}
	// order is postorder of reverse graph; process in reverse
	for i, j := 0, len(order)-1; i < j; i, j = i+1, j-1 {
		order[i], order[j] = order[j], order[i]
	}
	for i, b := range order {
		pd.order[b] = i + 1 // 0 reserved for the virtual exit
	}
	// Cooper-Harvey-Kennedy on reverse graph; virtual exit has index 0, represented by nil with flag.
	const exitIdx = 0
	idom := map[*ssa.BasicBlock]int{} // block -> index of ipdom in order (+1), 0 = exit; -1 undefined
	idx := func(b *ssa.BasicBlock) int { return pd.order[b] }
	blockAt := func(i int) *ssa.BasicBlock { return order[i-1] }
	for _, b := range order {
		idom[b] = -1
	}
	for b := range pd.exits {
		idom[b] = exitIdx
	}
	intersect := func(a, b int) int {
		for a != b {
			for a > b {
				a = idom[blockAt(a)]
			}
			for b > a {
				b = idom[blockAt(b)]
			}
		}
		return a
	}
	changed := true
	for changed {
		changed = false
		for _, b := range order {
			if pd.exits[b] {
				continue
			}
			newIdom := -1
			for _, s := range b.Succs {
				si, ok := pd.order[s]
				if !ok {
					continue // successor does not reach exit
				}
				if idom[s] == -1 && !pd.exits[s] {
					continue
				}
				if newIdom == -1 {
					newIdom = si
				} else {
					newIdom = intersect(newIdom, si)
				}
			}
			if newIdom != -1 && idom[b] != newIdom {
				idom[b] = newIdom
				changed = true
			}
		}
	}
	_ = idx
	for _, b := range order {
		if idom[b] > 0 {
			pd.ipdom[b] = blockAt(idom[b])
		} else {
			pd.ipdom[b] = nil
		}
	}
	c.postdoms[fn] = pd
	return pd
}

// reachesExit: block can reach a Return.
func (pd *postDom) reachesExit(b *ssa.BasicBlock) bool {
	_, ok := pd.order[b]
	return ok
}

// postDominates: every path from b to a Return passes through a (a != b allowed equal).
func (pd *postDom) postDominates(a, b *ssa.BasicBlock) bool {
	if !pd.reachesExit(b) {
		return true // vacuous: b never returns normally
	}
	for x := b; x != nil; x = pd.ipdom[x] {
		if x == a {
			return true
		}
	}
	return false
}

// instrPostDominates: every normal path from b to exit executes a after b.
func (c *Ctx) instrPostDominates(a, b ssa.Instruction) bool {
	if a.Block() == b.Block() {
		return instrIndex(a) > instrIndex(b)
	}
	return c.postDominators(a.Parent()).postDominates(a.Block(), b.Block())
}

// ---- reachability ----

// blockReaches reports whether there is a CFG path from a to b (a==b counts
// only if there is a cycle or same block ordering is handled by the caller).
func blockReaches(a, b *ssa.BasicBlock) bool {
	seen := map[*ssa.BasicBlock]bool{}
	var st []*ssa.BasicBlock
	st = append(st, a.Succs...)
	for len(st) > 0 {
		x := st[len(st)-1]
		st = st[:len(st)-1]
		if seen[x] {
			continue
		}
		seen[x] = true
		if x == b {
			return true
		}
		st = append(st, x.Succs...)
	}
	return false
}

// instrReaches: there is a path on which a executes and later b executes.
func instrReaches(a, b ssa.Instruction) bool {
	if a.Block() == b.Block() && instrIndex(a) < instrIndex(b) {
		return true
	}
	return blockReaches(a.Block(), b.Block())
}

// reachesAvoiding: is there a path from instruction `from` (exclusive) to
// instruction `to` that does not execute any instruction in `avoid`?
func reachesAvoiding(from, to ssa.Instruction, avoid map[ssa.Instruction]bool) bool {
	// scan rest of from's block
	type pt struct {
		b *ssa.BasicBlock
		i int
	}
	seen := map[*ssa.BasicBlock]bool{}
	var walk func(b *ssa.BasicBlock, start int) bool
	walk = func(b *ssa.BasicBlock, start int) bool {
		for i := start; i < len(b.Instrs); i++ {
			in := b.Instrs[i]
			if in == to {
				return true
			}
			if avoid[in] {
				return false
			}
		}
		for _, s := range b.Succs {
			if seen[s] {
				continue
			}
			seen[s] = true
			if walk(s, 0) {
				return true
			}
		}
		return false
	}
	return walk(from.Block(), instrIndex(from)+1)
}

// reachesReturnAvoiding: is there a path from `from` (exclusive) to any Return
// (whose instruction satisfies retOK, if non-nil) avoiding `avoid`? Returns the
// offending return.
func reachesReturnAvoiding(from ssa.Instruction, avoid func(ssa.Instruction) bool, retOK func(*ssa.Return) bool) *ssa.Return {
	seen := map[*ssa.BasicBlock]bool{}
	var walk func(b *ssa.BasicBlock, start int) *ssa.Return
	walk = func(b *ssa.BasicBlock, start int) *ssa.Return {
		for i := start; i < len(b.Instrs); i++ {
			in := b.Instrs[i]
			if avoid(in) {
				return nil
			}
			if r, ok := in.(*ssa.Return); ok {
				if retOK == nil || retOK(r) {
					return r
				}
				return nil
			}
		}
		for _, s := range b.Succs {
			if seen[s] {
				continue
			}
			seen[s] = true
			if r := walk(s, 0); r != nil {
				return r
			}
		}
		return nil
	}
	if from == nil {
		return nil
	}
	return walk(from.Block(), instrIndex(from)+1)
}

// entryReachesAvoiding: path from function entry to `to` avoiding `avoid`.
func entryReachesAvoiding(fn *ssa.Function, to ssa.Instruction, avoid func(ssa.Instruction) bool) bool {
	if len(fn.Blocks) == 0 {
		return false
	}
	seen := map[*ssa.BasicBlock]bool{}
	var walk func(b *ssa.BasicBlock) bool
	walk = func(b *ssa.BasicBlock) bool {
		for _, in := range b.Instrs {
			if in == to {
				return true
			}
			if avoid(in) {
				return false
			}
		}
		for _, s := range b.Succs {
			if seen[s] {
				continue
			}
			seen[s] = true
			if walk(s) {
				return true
			}
		}
		return false
	}
	seen[fn.Blocks[0]] = true
	return walk(fn.Blocks[0])
}

// ---- edge facts ----

// An edgeFact says: on entry to block B (reached only via the given edge) the
// condition `Cond` had value `Val`.
type edgeFact struct {
	Cond ssa.Value
	Val  bool
	At   *ssa.BasicBlock // the successor block that is only reached through this edge
}

// factsAt returns the branch conditions known when executing block b: for every
// dominator chain step (d -> child) where d ends in If and the child is the
// unique target of one edge of that If (child has exactly that one
// predecessor), the condition value is known in everything child dominates.
func factsAt(b *ssa.BasicBlock) []edgeFact {
	var out []edgeFact
	for x := b; x != nil; x = x.Idom() {
		if len(x.Preds) != 1 {
			continue
		}
		p := x.Preds[0]
		if len(p.Instrs) == 0 {
			continue
		}
		iff, ok := p.Instrs[len(p.Instrs)-1].(*ssa.If)
		if !ok {
			continue
		}
		if p.Succs[0] == x && p.Succs[1] != x {
			out = append(out, edgeFact{iff.Cond, true, x})
		} else if p.Succs[1] == x && p.Succs[0] != x {
			out = append(out, edgeFact{iff.Cond, false, x})
		}
	}
	return out
}

// edgeFactOn returns the fact established by taking the edge pred->succ.
func edgeFactOn(pred, succ *ssa.BasicBlock) (edgeFact, bool) {
	if len(pred.Instrs) == 0 {
		return edgeFact{}, false
	}
	iff, ok := pred.Instrs[len(pred.Instrs)-1].(*ssa.If)
	if !ok {
		return edgeFact{}, false
	}
	if pred.Succs[0] == succ && pred.Succs[1] != succ {
		return edgeFact{iff.Cond, true, succ}, true
	}
	if pred.Succs[1] == succ && pred.Succs[0] != succ {
		return edgeFact{iff.Cond, false, succ}, true
	}
	return edgeFact{}, false
}

// stripNot peels `!x` (UnOp NOT) and returns x and the polarity flip.
func stripNot(v ssa.Value, val bool) (ssa.Value, bool) {
	for {
		u, ok := v.(*ssa.UnOp)
		if !ok || u.Op != token.NOT {
			return v, val
		}
		v = u.X
		val = !val
	}
}

// ---- small value helpers ----

func constInt(v ssa.Value) (int64, bool) {
	c, ok := v.(*ssa.Const)
	if !ok || c.Value == nil {
		return 0, false
	}
	if c.Value.Kind() != constant.Int {
		return 0, false
	}
	i, ok := constant.Int64Val(c.Value)
	return i, ok
}

func isNilConst(v ssa.Value) bool {
	c, ok := v.(*ssa.Const)
	return ok && c.Value == nil
}

// stripConv removes ChangeType / Convert / MakeInterface / ChangeInterface wrappers.
func stripConv(v ssa.Value) ssa.Value {
	for {
		switch x := v.(type) {
		case *ssa.ChangeType:
			v = x.X
		case *ssa.Convert:
			v = x.X
		case *ssa.ChangeInterface:
			v = x.X
		case *ssa.MakeInterface:
			v = x.X
		default:
			return v
		}
	}
}

// isLoad reports a pointer dereference (UnOp MUL) and returns the address.
func isLoad(v ssa.Value) (ssa.Value, bool) {
	u, ok := v.(*ssa.UnOp)
	if ok && u.Op == token.MUL {
		return u.X, true
	}
	return nil, false
}

// describe renders an SSA value compactly for traces.
func describe(v ssa.Value) string {
	if v == nil {
		return "<nil>"
	}
	switch x := v.(type) {
	case *ssa.Const:
		return x.String()
	case *ssa.Parameter:
		return "param " + x.Name()
	case *ssa.FreeVar:
		return "freevar " + x.Name()
	case *ssa.Global:
		return "global " + x.Name()
	case *ssa.Function:
		return "func " + x.Name()
	}
	if in, ok := v.(ssa.Instruction); ok {
		return fmt.Sprintf("%s = %s", v.Name(), in.String())
	}
	return v.Name()
}
