package main

import (
	"fmt"
	"go/ast"
	"go/token"
	"go/types"
	"sort"
	"strings"

	"golang.org/x/tools/go/ssa"
)

func init() {
	register(&Rule{
		ID: "COMMITTED-ONLY", Props: []string{"C07"}, Floor: 3,
		Doc: "the transaction handed to a change iterator (Next/refresh/deleted) is only ever asked for committedRoot(): no root(), getTableEntry, index transaction or table query on it, so uncommitted writes of a write transaction are never delivered",
		Run: ruleCommittedOnly,
	})
	register(&Rule{
		ID: "SAME-SNAPSHOT", Props: []string{"C07"}, Floor: 6,
		Doc: "refresh takes the update source and the watch channel from the same revision index of the one entry committedRoot()[pos], the delete source from that root's graveyard-revision index; the cursors are revision+1 / deleteRevision+1; the delete source is the left input of the merge",
		Run: ruleSameSnapshot,
	})
	register(&Rule{
		ID: "NEXT-SHAPE", Props: []string{"C07", "C08", "C19"}, Default: []string{"C07", "C08"}, Floor: 8,
		Doc: "changeIterator.Next returns (it.watch, empty sequence) only when no iterator is pending, else refreshes and returns (closed channel, delivering sequence); the delivering sequence advances revision/deleteRevision and marks the tracker with exactly the revision of the change it is about to yield, before yielding, and clears the iterator only when exhausted",
		Run: ruleNextShape,
	})
	register(&Rule{
		ID: "GC-SCAN", Props: []string{"C07", "C08", "C10"}, Floor: 5,
		Doc: "graveyardWorker's low watermark starts at the table revision and is only ever lowered to a tracker's revision, every tracker participating (the loop has no other exit or filter); keys are collected only for objects with revision <= watermark; the write transaction covers exactly the tables with collected keys",
		Run: ruleGCScan,
	})
	register(&Rule{
		ID: "GRAVEYARD-REFS", Props: []string{"C08"}, Floor: 8,
		Doc: "the graveyard index positions/names are referenced only by the write primitives, the collector, the change iterator's delete source, the deleted-object counter and table construction; object counts use the revision index",
		Run: ruleGraveyardRefs,
	})
	register(&Rule{
		ID: "TRIGGER-NONBLOCK", Props: []string{"C08", "C10"}, Floor: 2,
		Doc: "every send on dbState.gcTrigger is a select case with a default (a tracker is marked while its consumer may hold a write transaction the collector waits for)",
		Run: ruleTriggerNonblock,
	})
}

func isReadTxnType(t types.Type) bool {
	n := namedOf(t)
	return n != nil && n.Obj().Name() == "ReadTxn" && n.Obj().Pkg() != nil && n.Obj().Pkg().Path() == modPath
}

func ruleCommittedOnly(c *Ctx, r *Reporter) {
	checked := map[string]bool{
		"statedb.(changeIterator).Next": true, "statedb.(changeIterator).refresh": true,
		"statedb.(deleteTracker).deleted": true, "statedb.(changeIterator).nextAny": true,
	}
	n := 0
	for _, fn := range c.Funcs {
		if !checked[c.fnName(fn)] {
			continue
		}
		for _, p := range fn.Params {
			if !isReadTxnType(p.Type()) {
				continue
			}
			n++
			key := c.fnName(fn) + "|uses of " + p.Name()
			var bad []string
			var badPos token.Pos
			var visit func(v ssa.Value, depth int)
			visit = func(v ssa.Value, depth int) {
				refs := v.Referrers()
				if refs == nil || depth > 4 {
					return
				}
				for _, ref := range *refs {
					switch x := ref.(type) {
					case *ssa.DebugRef:
					case *ssa.Store:
						// spilled into a local: follow loads of the cell
						if x.Val == v {
							if a, ok := x.Addr.(*ssa.Alloc); ok {
								if rr := a.Referrers(); rr != nil {
									for _, r2 := range *rr {
										if u, ok := r2.(*ssa.UnOp); ok {
											visit(u, depth+1)
										}
										if mc, ok := r2.(*ssa.MakeClosure); ok {
											bad = append(bad, "captured by a function literal")
											badPos = mc.Pos()
										}
									}
								}
								continue
							}
							bad = append(bad, "stored")
							badPos = x.Pos()
						}
					case ssa.CallInstruction:
						com := x.Common()
						if com.IsInvoke() && com.Value == v {
							if com.Method.Name() != "committedRoot" {
								bad = append(bad, "calls "+com.Method.Name()+"() on it")
								badPos = x.Pos()
							}
							continue
						}
						callee := c.calleeName(x)
						if checked[callee] {
							continue
						}
						bad = append(bad, "passes it to "+callee)
						badPos = x.Pos()
					case *ssa.MakeInterface, *ssa.ChangeInterface:
						visit(ref.(ssa.Value), depth+1)
					default:
						bad = append(bad, fmt.Sprintf("used by %T", ref))
						badPos = ref.Pos()
					}
				}
			}
			visit(p, 0)
			if len(bad) == 0 {
				r.ok(key, c.posStr(fn.Pos()), "only committedRoot() is called on the transaction (or it is forwarded to another checked function)")
			} else {
				sort.Strings(bad)
				r.bad(key, c.posStr(badPos), "the change iterator reads through the caller's transaction other than by committedRoot(): "+strings.Join(bad, "; ")+" - given a write transaction it would deliver that transaction's uncommitted (possibly later aborted) changes")
			}
		}
	}
	if n < 3 {
		r.undecided("functions", "-", fmt.Sprintf("expected at least 3 change-iterator functions taking a ReadTxn, found %d", n))
	}
}

// committedEntryIndex: v == committedRoot()[pos].indexes[K]; returns the
// committedRoot call and K.
func committedEntryIndex(v ssa.Value) (root ssa.Value, k int64, ok bool) {
	p, ok1 := isLoad(v)
	if !ok1 {
		return nil, 0, false
	}
	ix, ok1 := p.(*ssa.IndexAddr)
	if !ok1 {
		return nil, 0, false
	}
	k, ok1 = constInt(ix.Index)
	if !ok1 {
		return nil, 0, false
	}
	e, ok1 := loadOfField(ix.X, "tableEntry", "indexes")
	if !ok1 {
		return nil, 0, false
	}
	ep, ok1 := isLoad(e)
	if !ok1 {
		return nil, 0, false
	}
	eix, ok1 := ep.(*ssa.IndexAddr)
	if !ok1 {
		return nil, 0, false
	}
	call, ok1 := eix.X.(*ssa.Call)
	if !ok1 || !call.Call.IsInvoke() {
		return nil, 0, false
	}
	return call, k, call.Call.Method.Name() == "committedRoot"
}

func isFieldPlusOne(v ssa.Value, typeName, field string) bool {
	// index.Uint64(x+1) or x+1
	if call, ok := v.(*ssa.Call); ok && len(call.Call.Args) == 1 {
		if f := staticCallee(call); f != nil && f.Name() == "Uint64" {
			v = call.Call.Args[0]
		}
	}
	b, ok := v.(*ssa.BinOp)
	if !ok || b.Op != token.ADD {
		return false
	}
	if k, ok := constInt(b.Y); !ok || k != 1 {
		return false
	}
	_, ok = loadOfField(b.X, typeName, field)
	return ok
}

func ruleSameSnapshot(c *Ctx, r *Reporter) {
	fn := c.Func("statedb", "changeIterator", "refresh")
	if fn == nil {
		r.anchorMissing("statedb.(changeIterator).refresh")
		return
	}
	name := c.fnName(fn)
	var lbn, rw *ssa.Call
	var del, dual *ssa.Call
	for _, ia := range allInstrs(fn) {
		call, ok := ia.In.(*ssa.Call)
		if !ok {
			continue
		}
		if call.Call.IsInvoke() {
			switch call.Call.Method.Name() {
			case "lowerBoundNext":
				lbn = call
			case "rootWatch":
				rw = call
			}
		} else if f := staticCallee(call); f != nil {
			switch f.Name() {
			case "deleted":
				del = call
			case "newDualIterator":
				dual = call
			}
		}
	}
	if lbn == nil || rw == nil || del == nil || dual == nil {
		r.undecided(name+"|shape", c.posStr(fn.Pos()), "refresh does not contain the expected lowerBoundNext / rootWatch / deleted / newDualIterator calls")
		return
	}
	root, k, ok := committedEntryIndex(lbn.Call.Value)
	r.check(ok && k == posRevision, name+"|updates from committedRoot()[pos].indexes[revision]", c.posStr(instrPos(lbn)),
		"the update source is the revision index of the committed entry", "the update source is not the revision index of committedRoot()[pos]")
	r.check(rw.Call.Value == lbn.Call.Value, name+"|watch from the same index", c.posStr(instrPos(rw)),
		"it.watch is the root watch of the very index the updates were read from", "the watch channel stored by refresh does not come from the index (and snapshot) the updates were read from: a commit between the two can be missed forever")
	// watch stored
	stored := false
	for _, ia := range allInstrs(fn) {
		if st, ok := ia.In.(*ssa.Store); ok && isFieldAddrOf(st.Addr, "changeIterator", "watch") && st.Val == ssa.Value(rw) {
			stored = true
		}
	}
	r.check(stored, name+"|it.watch assigned", c.posStr(instrPos(rw)), "it.watch = index.rootWatch()", "refresh does not store the index's root watch into it.watch")
	r.check(isFieldPlusOne(lbn.Call.Args[0], "changeIterator", "revision"), name+"|update cursor revision+1", c.posStr(instrPos(lbn)),
		"updates are read from it.revision+1", "updates are not read from it.revision+1 (a change is re-delivered or skipped)")
	r.check(len(del.Call.Args) == 3 && isFieldPlusOne(del.Call.Args[2], "changeIterator", "deleteRevision"), name+"|delete cursor deleteRevision+1", c.posStr(instrPos(del)),
		"deletions are read from it.deleteRevision+1", "deletions are not read from it.deleteRevision+1")
	r.check(len(dual.Call.Args) == 2 && dual.Call.Args[0] == ssa.Value(del), name+"|delete source is the left input", c.posStr(instrPos(dual)),
		"newDualIterator(deleteIter, updateIter): fromLeft means deleted", "the delete source is not the left input of the merge: updates are reported as deletions and vice versa")
	_ = root
	// deleted(): graveyard-revision index of the committed root
	if dfn := c.Func("statedb", "deleteTracker", "deleted"); dfn != nil {
		good := false
		var pos token.Pos = dfn.Pos()
		for _, ia := range allInstrs(dfn) {
			call, ok := ia.In.(*ssa.Call)
			if !ok || !call.Call.IsInvoke() || call.Call.Method.Name() != "lowerBoundNext" {
				continue
			}
			pos = call.Pos()
			if _, k, ok := committedEntryIndex(call.Call.Value); ok && k == posGraveyardRev {
				good = true
			}
		}
		r.check(good, "statedb.(deleteTracker).deleted|from committedRoot()[pos].indexes[graveyard-revision]", c.posStr(pos),
			"the delete source is the graveyard-revision index of the committed entry", "the delete source is not the graveyard-revision index of committedRoot()[pos]")
	} else {
		r.anchorMissing("statedb.(deleteTracker).deleted")
	}
}

func ruleNextShape(c *Ctx, r *Reporter) {
	fn := c.Func("statedb", "changeIterator", "Next")
	if fn == nil {
		r.anchorMissing("statedb.(changeIterator).Next")
		return
	}
	name := c.fnName(fn)
	var refresh *ssa.Call
	for _, ia := range allInstrs(fn) {
		if call, ok := ia.In.(*ssa.Call); ok {
			if f := staticCallee(call); f != nil && f.Name() == "refresh" {
				refresh = call
			}
		}
	}
	if refresh == nil {
		r.bad(name+"|refresh", c.posStr(fn.Pos()), "Next does not call refresh")
		return
	}
	// "nothing new" is decided from the snapshot that was passed in: the return of the remembered
	// (open) watch channel with an empty sequence happens only where that channel was compared
	// with the root watch of the snapshot's revision index. The channel alone proves nothing - it is
	// closed only after the new root has been stored.
	for _, ret := range returnsOf(fn) {
		if _, ok := loadOfField(ret.Results[1], "changeIterator", "watch"); !ok {
			continue
		}
		fromSnapshot := false
		for _, f := range factsAt(ret.Block()) {
			bo, ok := f.Cond.(*ssa.BinOp)
			if !ok || bo.Op != token.EQL || !f.Val {
				continue
			}
			for _, pair := range [][2]ssa.Value{{bo.X, bo.Y}, {bo.Y, bo.X}} {
				call, ok := pair[0].(*ssa.Call)
				if !ok || !call.Call.IsInvoke() || call.Call.Method.Name() != "rootWatch" {
					continue
				}
				if _, ok := loadOfField(pair[1], "changeIterator", "watch"); ok {
					// the index is read from committedRoot() of the transaction passed in
					prov := false
					for _, ia := range allInstrs(fn) {
						if cr, ok := ia.In.(*ssa.Call); ok && cr.Call.IsInvoke() && cr.Call.Method.Name() == "committedRoot" && cr.Call.Value == ssa.Value(fn.Params[1]) && instrDominates(cr, call) {
							prov = true
						}
					}
					fromSnapshot = prov
				}
			}
		}
		r.checkP([]string{"C07", "C19"}, fromSnapshot, name+"|'nothing new' is decided from the snapshot", c.posStr(instrPos(ret)), "the open channel is returned only when the snapshot still has the revision index it belongs to", "an exhausted iterator answers 'nothing new' from its remembered watch channel alone: Commit closes that channel only after storing the new root, so Next(snapshot) taken in between returns no changes although the snapshot has them (Derive then marks its output table initialized before the objects are derived)")
	}
	var deliver *ssa.Function
	nRet := 0
	for i, ret := range returnsOf(fn) {
		nRet++
		key := fmt.Sprintf("%s|return#%d", name, i+1)
		seq, watch := stripConv(ret.Results[0]), ret.Results[1]
		var cl *ssa.Function
		switch x := seq.(type) {
		case *ssa.MakeClosure:
			cl, _ = x.Fn.(*ssa.Function)
		case *ssa.Function:
			cl = x
		}
		if cl == nil {
			r.undecided(key, c.posStr(instrPos(ret)), "returned sequence is not a function literal")
			continue
		}
		empty := len(cl.Blocks) == 1 && len(cl.Blocks[0].Instrs) == 1
		if g, ok := isGlobalLoad(watch, "closedWatchChannel"); ok && g {
			// delivering return
			good := instrDominates(refresh, ret) && !empty
			deliver = cl
			r.check(good, key+" (pending)", c.posStr(instrPos(ret)), "(closed channel, delivering sequence) after refresh", "the pending-changes return is not dominated by refresh or returns an empty sequence")
			continue
		}
		if _, ok := loadOfField(watch, "changeIterator", "watch"); ok {
			// idle return: only when it.iter == nil (and the watch is still open)
			iterNil := false
			for _, f := range factsAt(ret.Block()) {
				if b, ok := f.Cond.(*ssa.BinOp); ok && b.Op == token.EQL && f.Val && isNilConst(b.Y) {
					if _, ok := loadOfField(b.X, "changeIterator", "iter"); ok {
						iterNil = true
					}
				}
			}
			sel := false
			for _, f := range factsAt(ret.Block()) {
				if b, ok := f.Cond.(*ssa.BinOp); ok && b.Op == token.EQL {
					if ex, ok := b.X.(*ssa.Extract); ok {
						if s, ok := ex.Tuple.(*ssa.Select); ok && !s.Blocking && !f.Val {
							sel = true
						}
					}
				}
			}
			good := iterNil && sel && empty && !instrReaches(refresh, ret)
			r.check(good, key+" (idle)", c.posStr(instrPos(ret)), "(it.watch, empty sequence) only when no iterator is pending and the watch is not closed", "the idle return (open watch channel) is taken while changes are pending, or delivers something, or follows a refresh")
			continue
		}
		r.bad(key, c.posStr(instrPos(ret)), "Next returns a watch channel that is neither it.watch nor the closed channel")
	}
	if nRet != 2 {
		r.undecided(name+"|returns", c.posStr(fn.Pos()), fmt.Sprintf("expected 2 returns in Next, found %d", nRet))
	}
	if deliver == nil {
		r.anchorMissing("delivering closure of Next")
		return
	}
	dn := c.fnName(deliver)
	// the delivering closure
	var yield *ssa.Call
	for _, ia := range allInstrs(deliver) {
		if call, ok := ia.In.(*ssa.Call); ok {
			if p, ok := call.Call.Value.(*ssa.Parameter); ok && p == deliver.Params[0] {
				yield = call
			}
		}
	}
	if yield == nil || len(yield.Call.Args) != 2 {
		r.undecided(dn+"|yield", c.posStr(deliver.Pos()), "no call of yield found in the delivering closure")
		return
	}
	rev := yield.Call.Args[1]
	// rev must come from dualIterator.next()'s revision result
	fromNext := func(v ssa.Value, idx int) bool {
		seen := map[ssa.Value]bool{}
		var walk func(v ssa.Value) bool
		walk = func(v ssa.Value) bool {
			if seen[v] {
				return true
			}
			seen[v] = true
			switch x := v.(type) {
			case *ssa.Phi:
				for _, e := range x.Edges {
					if !walk(e) {
						return false
					}
				}
				return true
			case *ssa.Extract:
				if call, ok := x.Tuple.(*ssa.Call); ok && x.Index == idx {
					if f := staticCallee(call); f != nil && f.Name() == "next" && recvTypeName(f) == "dualIterator" {
						return true
					}
				}
			}
			return false
		}
		return walk(v)
	}
	r.check(fromNext(rev, 1), dn+"|yielded revision", c.posStr(instrPos(yield)), "the revision yielded is the one dualIterator.next() returned with the object", "the yielded revision is not the revision returned by dualIterator.next() for this object")
	var deletedFlag ssa.Value
	for _, ia := range allInstrs(deliver) {
		if st, ok := ia.In.(*ssa.Store); ok && isFieldAddrOf(st.Addr, "Change", "Deleted") {
			deletedFlag = st.Val
		}
	}
	r.check(deletedFlag != nil && fromNext(deletedFlag, 2), dn+"|Deleted flag", c.posStr(instrPos(yield)), "Change.Deleted is dualIterator.next()'s fromLeft", "Change.Deleted is not taken from the merge's fromLeft result")
	type cur struct {
		field   string
		deleted bool
	}
	for _, cu := range []cur{{"deleteRevision", true}, {"revision", false}} {
		var st *ssa.Store
		cnt := 0
		for _, ia := range allInstrs(deliver) {
			if s, ok := ia.In.(*ssa.Store); ok && isFieldAddrOf(s.Addr, "changeIterator", cu.field) {
				st = s
				cnt++
			}
		}
		key := dn + "|cursor " + cu.field
		if st == nil || cnt != 1 {
			r.bad(key, c.posStr(deliver.Pos()), fmt.Sprintf("expected exactly one assignment of it.%s in the delivering sequence, found %d", cu.field, cnt))
			continue
		}
		flagOK := false
		for _, f := range factsAt(st.Block()) {
			if f.Cond == deletedFlag && f.Val == cu.deleted {
				flagOK = true
			}
		}
		good := st.Val == rev && flagOK && instrReaches(st, yield) && !instrDominates(yield, st) && !reachesWithinIteration(yield, st)
		r.check(good, key, c.posStr(instrPos(st)),
			"it."+cu.field+" is set to the revision of the change about to be yielded, on the matching branch, before yield",
			"it."+cu.field+" is not advanced to exactly the revision of the change being delivered (before yielding it): a partially consumed sequence loses or repeats changes")
	}
	// mark(rev) on the deleted branch before yield
	var mark *ssa.Call
	for _, ia := range allInstrs(deliver) {
		if call, ok := ia.In.(*ssa.Call); ok {
			if f := staticCallee(call); f != nil && f.Name() == "mark" {
				mark = call
			}
		}
	}
	if mark == nil {
		r.badP([]string{"C08", "C07"}, dn+"|mark", c.posStr(deliver.Pos()), "the delivering sequence never marks the delete tracker: retained deletions are never released")
	} else {
		flagOK := false
		for _, f := range factsAt(mark.Block()) {
			if f.Cond == deletedFlag && f.Val {
				flagOK = true
			}
		}
		good := len(mark.Call.Args) == 2 && mark.Call.Args[1] == rev && flagOK && instrReaches(mark, yield) && !reachesWithinIteration(yield, mark)
		r.checkP([]string{"C08", "C07"}, good, dn+"|mark", c.posStr(instrPos(mark)),
			"dt.mark(rev) with the revision of the deletion being handed out, on the deleted branch",
			"the delete tracker is not marked with exactly the revision of the deletion being handed out: the collector may discard deletions this iterator has not been handed yet (or never collects)")
	}
	// no mark outside the delivering closure
	for _, ia := range allInstrs(fn) {
		if call, ok := ia.In.(*ssa.Call); ok {
			if f := staticCallee(call); f != nil && f.Name() == "mark" {
				r.badP([]string{"C08", "C07"}, name+"|mark outside delivery", c.posStr(instrPos(call)), "the delete tracker is marked in Next itself, before the deletions are handed to the consumer: a collection between Next and consumption discards them")
			}
		}
	}
	// it.iter = nil only when exhausted
	var okVal ssa.Value
	for _, ia := range allInstrs(deliver) {
		if iff, ok := ia.In.(*ssa.If); ok && fromNext(iff.Cond, 3) {
			okVal = iff.Cond
		}
	}
	clears := 0
	goodClear := true
	var clearPos token.Pos = deliver.Pos()
	for _, ia := range allInstrs(deliver) {
		if st, ok := ia.In.(*ssa.Store); ok && isFieldAddrOf(st.Addr, "changeIterator", "iter") {
			clears++
			clearPos = st.Pos()
			exhausted := false
			for _, f := range factsAt(st.Block()) {
				if f.Cond == okVal && !f.Val {
					exhausted = true
				}
			}
			if !exhausted || !isNilConst(st.Val) {
				goodClear = false
			}
		}
	}
	r.check(clears == 1 && goodClear && okVal != nil, dn+"|iterator cleared only when exhausted", c.posStr(clearPos),
		"it.iter = nil only after dualIterator.next() reported no more changes", "the pending iterator is dropped before it is exhausted (or never): a consumer that stops early loses the remaining changes, or Next never goes back to waiting")
}

func isGlobalLoad(v ssa.Value, name string) (bool, bool) {
	if addr, ok := isLoad(v); ok {
		if g, ok := addr.(*ssa.Global); ok {
			return g.Name() == name, true
		}
	}
	return false, false
}

func ruleGCScan(c *Ctx, r *Reporter) {
	fn := c.Func("statedb", "", "graveyardWorker")
	if fn == nil {
		r.anchorMissing("statedb.graveyardWorker")
		return
	}
	name := c.fnName(fn)
	fns := withAnon(fn)
	// the watermark cell: Alloc of uint64 initialised from table.revision
	var cell *ssa.Alloc
	for _, ia := range allInstrs(fn) {
		st, ok := ia.In.(*ssa.Store)
		if !ok {
			continue
		}
		a, ok := st.Addr.(*ssa.Alloc)
		if !ok {
			continue
		}
		if _, ok := loadOfField(st.Val, "tableEntry", "revision"); ok {
			cell = a
		}
	}
	var wm ssa.Value // watermark as SSA: either the cell or a phi
	if cell == nil {
		// not address-taken: a phi whose initial edge is table.revision
		for _, ia := range allInstrs(fn) {
			if phi, ok := ia.In.(*ssa.Phi); ok {
				for _, e := range phi.Edges {
					if _, ok := loadOfField(e, "tableEntry", "revision"); ok {
						wm = phi
					}
				}
			}
		}
	}
	if cell == nil && wm == nil {
		r.bad(name+"|watermark starts at table revision", c.posStr(fn.Pos()), "no low watermark initialised from the table's revision was found in the collector")
		return
	}
	r.ok(name+"|watermark starts at table revision", c.posStr(fn.Pos()), "lowWatermark := table.revision")
	if cell == nil {
		r.undecided(name+"|watermark shape", c.posStr(fn.Pos()), "the watermark is not a captured variable; rule knows only the captured form")
		return
	}
	// stores to the cell other than the init: only lowering to a tracker revision
	isCellLoad := func(v ssa.Value) bool {
		p, ok := isLoad(v)
		return ok && p == ssa.Value(cell)
	}
	n := 0
	for _, f := range fns {
		for _, ia := range allInstrs(f) {
			st, ok := ia.In.(*ssa.Store)
			if !ok {
				continue
			}
			target := st.Addr == ssa.Value(cell)
			if fv, ok := st.Addr.(*ssa.FreeVar); ok && fv.Name() == cell.Comment {
				target = true
			}
			if !target {
				continue
			}
			if _, ok := loadOfField(st.Val, "tableEntry", "revision"); ok {
				continue
			}
			n++
			key := fmt.Sprintf("%s|watermark lowered#%d", name, n)
			// value: getRevision() of a tracker; facts inside the loop: exactly rev < watermark
			call, isCall := st.Val.(*ssa.Call)
			fromTracker := isCall && call.Call.IsInvoke() && call.Call.Method.Name() == "getRevision"
			lss := false
			extra := ""
			for _, fct := range factsAt(st.Block()) {
				if b, ok := fct.Cond.(*ssa.BinOp); ok {
					if b.Op == token.LSS && fct.Val && b.X == st.Val && isCellLoad(b.Y) {
						lss = true
						continue
					}
					if b.Op == token.GTR && fct.Val && b.Y == st.Val && isCellLoad(b.X) {
						lss = true
						continue
					}
					if b.X == st.Val || b.Y == st.Val {
						extra = b.String()
					}
				}
			}
			good := fromTracker && lss && extra == ""
			msg := "the watermark is assigned something other than min(watermark, tracker revision)"
			if extra != "" {
				msg = "a tracker's revision is filtered by an additional condition (" + extra + ") before it lowers the watermark: that iterator's unobserved deletions can be collected"
			}
			r.check(good, key, c.posStr(instrPos(st)), "lowWatermark = rev only under rev < lowWatermark, rev = dt.getRevision()", msg)
		}
	}
	if n == 0 {
		r.bad(name+"|watermark lowered", c.posStr(fn.Pos()), "the collector never lowers the watermark to the delete trackers' revisions: deletions are discarded before iterators saw them")
	}
	// the tracker's accessors are honest: getRevision returns the stored watermark unmodified
	if gr := c.Func("statedb", "deleteTracker", "getRevision"); gr != nil {
		good := true
		nret := 0
		for _, ret := range returnsOf(gr) {
			nret++
			call, ok := ret.Results[0].(*ssa.Call)
			if !ok || c.calleeName(call) != "sync/atomic.(Uint64).Load" || !isFieldAddrOf(call.Call.Args[0], "deleteTracker", "revision") {
				good = false
			}
		}
		r.check(good && nret == 1, "statedb.(deleteTracker).getRevision|returns the stored watermark", c.posStr(gr.Pos()), "getRevision() is revision.Load()", "getRevision() does not return the tracker's stored revision unmodified (special-cased or transformed): the collector's minimum no longer covers this iterator")
	} else {
		r.anchorMissing("statedb.(deleteTracker).getRevision")
	}
	for _, spec := range [][2]string{{"setRevision", "rev"}, {"mark", "upTo"}} {
		if f := c.Func("statedb", "deleteTracker", spec[0]); f != nil {
			good := false
			for _, call := range c.callsNamed(f, "sync/atomic.(Uint64).Store") {
				a := call.Common().Args
				if isFieldAddrOf(a[0], "deleteTracker", "revision") && a[1] == ssa.Value(f.Params[1]) {
					good = true
				}
			}
			r.check(good, "statedb.(deleteTracker)."+spec[0]+"|stores its argument", c.posStr(f.Pos()), spec[0]+" stores exactly the revision it is given", spec[0]+" does not store exactly the revision it is given into the tracker")
		} else {
			r.anchorMissing("statedb.(deleteTracker)." + spec[0])
		}
	}
	// tracker loop: every tracker participates (loop exits only from the header)
	var trackerNext []*ssa.Call
	for _, ia := range allInstrs(fn) {
		if call, ok := ia.In.(*ssa.Call); ok {
			if f := staticCallee(call); f != nil && extFnName(f) == "" {
				_ = f
			}
			if cn := c.calleeName(call); cn == "part.(Iterator).Next" {
				trackerNext = append(trackerNext, call)
			}
		}
	}
	if len(trackerNext) > 0 {
		// find the loop header: the If on the `ok` phi
		var hdr *ssa.BasicBlock
		for _, b := range fn.Blocks {
			if iff, ok := b.Instrs[len(b.Instrs)-1].(*ssa.If); ok {
				if phi, ok := iff.Cond.(*ssa.Phi); ok {
					for _, e := range phi.Edges {
						if ex, ok := e.(*ssa.Extract); ok && ex.Index == 2 {
							for _, tn := range trackerNext {
								if ex.Tuple == ssa.Value(tn) {
									hdr = b
								}
							}
						}
					}
				}
			}
		}
		if hdr == nil {
			r.undecided(name+"|tracker loop", c.posStr(fn.Pos()), "could not find the loop over the delete trackers")
		} else {
			// natural loop: blocks that reach hdr and are dominated by hdr
			inLoop := naturalLoop(hdr)
			exits := 0
			for b := range inLoop {
				if b == hdr {
					continue
				}
				for _, s := range b.Succs {
					if !inLoop[s] {
						exits++
					}
				}
			}
			r.check(exits == 0, name+"|every tracker is visited", c.posStr(instrPos(hdr.Instrs[len(hdr.Instrs)-1])), "the loop over delete trackers only ends by exhaustion", "the loop over delete trackers can be left early: the remaining trackers do not hold the watermark down")
		}
	} else {
		r.anchorMissing("iteration over deleteTrackers in graveyardWorker")
	}
	// collected only under obj.revision <= watermark
	// (the obligation sits on the append of a key to a list of dead keys; recording a table with an
	// empty list only costs that table a short write transaction of its own)
	nmu := 0
	for _, f := range fns {
		for _, ia := range allInstrs(f) {
			var mu ssa.Instruction
			if call, ok := ia.In.(*ssa.Call); ok {
				if bi, ok := call.Call.Value.(*ssa.Builtin); ok && bi.Name() == "append" {
					if st, ok := call.Type().Underlying().(*types.Slice); ok && namedTypeName(st.Elem()) == "Key" {
						mu = call
					}
				}
			}
			if mu == nil {
				continue
			}
			nmu++
			key := fmt.Sprintf("%s|key collected#%d", name, nmu)
			good := false
			for _, fct := range factsAt(mu.Block()) {
				b, ok := fct.Cond.(*ssa.BinOp)
				if !ok {
					continue
				}
				objRev := func(v ssa.Value) bool {
					p, ok := isLoad(v)
					if !ok {
						return false
					}
					fa, ok := p.(*ssa.FieldAddr)
					if !ok {
						return false
					}
					tn, fld, _ := fieldOf(fa)
					return tn == "object" && fld == "revision"
				}
				wmLoad := func(v ssa.Value) bool {
					p, ok := isLoad(v)
					if !ok {
						return false
					}
					if p == ssa.Value(cell) {
						return true
					}
					if fv, ok := p.(*ssa.FreeVar); ok && fv.Name() == cell.Comment {
						return true
					}
					return false
				}
				switch {
				case b.Op == token.GTR && !fct.Val && objRev(b.X) && wmLoad(b.Y):
					good = true
				case b.Op == token.LEQ && fct.Val && objRev(b.X) && wmLoad(b.Y):
					good = true
				}
			}
			r.check(good, key, c.posStr(instrPos(mu)), "a key (and its table) is queued for collection only when obj.revision <= lowWatermark", "the collector queues a key without the `revision <= lowWatermark` test: deletions not yet observed by every iterator are collected")
		}
	}
	if nmu == 0 {
		r.anchorMissing("append of a dead key in graveyardWorker")
	}
	// the collector locks one table at a time, and only tables with collected keys: every WriteTxn
	// takes a single table, the key of the iteration over toBeDeleted it sits in
	goodW := false
	why := "no WriteTxn found in the collector"
	var wpos token.Pos = fn.Pos()
	for _, call := range c.callsNamed(fn, "statedb.(DB).WriteTxn") {
		wpos = call.Pos()
		goodW = false
		args := call.Common().Args
		if len(args) != 2 {
			why = "unexpected WriteTxn call shape"
			break
		}
		sl, ok := args[1].(*ssa.Slice)
		if !ok {
			why = "the collector opens one write transaction on a computed set of tables: acquiring several table locks holds those already taken while waiting for a busy one, so a writer that keeps table a open makes the collector sit on the lock of an unrelated table b and WriteTxn(b) waits for the writer of a"
			break
		}
		arr, ok := sl.X.(*ssa.Alloc)
		if !ok {
			why = "the collector opens one write transaction on a computed set of tables: acquiring several table locks holds those already taken while waiting for a busy one, so a writer that keeps table a open makes the collector sit on the lock of an unrelated table b and WriteTxn(b) waits for the writer of a"
			break
		}
		if n := arr.Type().(*types.Pointer).Elem().Underlying().(*types.Array).Len(); n != 1 {
			why = fmt.Sprintf("the collector's write transaction takes %d tables at once", n)
			break
		}
		sts := storesToElems(fn, arr)
		if len(sts) != 1 {
			why = "unexpected WriteTxn argument"
			break
		}
		ex, ok := sts[0].Val.(*ssa.Extract)
		if !ok || ex.Index != 1 {
			why = "the table locked by the collector is not the key of the iteration over the collected keys"
			break
		}
		nx, ok := ex.Tuple.(*ssa.Next)
		if !ok {
			why = "the table locked by the collector is not the key of the iteration over the collected keys"
			break
		}
		rg, ok := nx.Iter.(*ssa.Range)
		if !ok {
			why = "the table locked by the collector is not the key of the iteration over the collected keys"
			break
		}
		if _, isMap := rg.X.Type().Underlying().(*types.Map); !isMap {
			why = "the collector does not iterate the map of collected keys"
			break
		}
		goodW = true
	}
	r.checkP([]string{"C10", "C08"}, goodW, name+"|write txn over collected tables only", c.posStr(wpos), "each WriteTxn of the collector locks the one table whose collected keys it deletes", "the collector's locking delays writers of unrelated tables: "+why)
}

func ruleGraveyardRefs(c *Ctx, r *Reporter) {
	allowed := map[string]bool{
		"modify": true, "delete": true, "graveyardWorker": true, "deleted": true, "numDeletedObjects": true,
		"tableEntry": true, "graveyardIsEmpty": true, "NewTableAny": true,
	}
	consts := map[string]bool{"GraveyardIndexPos": true, "GraveyardRevisionIndexPos": true, "GraveyardIndex": true, "GraveyardRevisionIndex": true}
	p := c.ByPath[modPath]
	if p == nil {
		r.anchorMissing("package statedb")
		return
	}
	n := 0
	for _, f := range p.Syntax {
		for _, d := range f.Decls {
			fd, ok := d.(*ast.FuncDecl)
			if !ok || fd.Body == nil {
				continue
			}
			ast.Inspect(fd.Body, func(nd ast.Node) bool {
				id, ok := nd.(*ast.Ident)
				if !ok {
					return true
				}
				obj := p.TypesInfo.Uses[id]
				cst, ok := obj.(*types.Const)
				if !ok || !consts[cst.Name()] || cst.Pkg() == nil || cst.Pkg().Path() != modPath {
					return true
				}
				n++
				key := fmt.Sprintf("%s|%s", fd.Name.Name, cst.Name())
				if allowed[fd.Name.Name] {
					r.ok(key, c.posStr(id.Pos()), "graveyard index referenced from an allowed function")
				} else {
					r.bad(key, c.posStr(id.Pos()), "the graveyard indexes are referenced outside the write primitives/collector/change iterator/deleted-object counter: retained deletions could appear in queries or object counts")
				}
				return true
			})
		}
	}
	if n < 8 {
		r.undecided("references", "-", fmt.Sprintf("expected at least 8 references to the graveyard constants, found %d", n))
	}
	// numObjects counts the revision index
	if fn := c.Func("statedb", "tableEntry", "numObjects"); fn != nil {
		good := false
		for _, ia := range allInstrs(fn) {
			if ix, ok := ia.In.(*ssa.IndexAddr); ok {
				if k, ok := constInt(ix.Index); ok && k == posRevision {
					good = true
				}
			}
		}
		r.check(good, "statedb.(tableEntry).numObjects|revision index", c.posStr(fn.Pos()), "object count is the size of the revision index", "the object count is not taken from the revision index")
	} else {
		r.anchorMissing("statedb.(tableEntry).numObjects")
	}
}

func ruleTriggerNonblock(c *Ctx, r *Reporter) {
	n := 0
	for _, fn := range c.Funcs {
		for _, ia := range allInstrs(fn) {
			switch x := ia.In.(type) {
			case *ssa.Send:
				if _, ok := loadOfField(x.Chan, "dbState", "gcTrigger"); ok {
					n++
					// the first send into a buffered channel this function has just made cannot block
					fresh := false
					for _, ib := range allInstrs(fn) {
						st, ok := ib.In.(*ssa.Store)
						if !ok || !isFieldAddrOf(st.Addr, "dbState", "gcTrigger") || !instrDominates(st, x) {
							continue
						}
						if mk, ok := st.Val.(*ssa.MakeChan); ok {
							if k, ok := constInt(mk.Size); ok && k >= 1 {
								fresh = true
								// no other send/select-send in between
								for _, ic := range allInstrs(fn) {
									if s2, ok := ic.In.(*ssa.Send); ok && s2 != x && instrDominates(st, s2) && instrReaches(s2, x) {
										fresh = false
									}
								}
							}
						}
					}
					if fresh {
						r.ok(fmt.Sprintf("%s|send gcTrigger#%d", c.fnName(fn), n), c.posStr(instrPos(x)), "the first send into the buffered channel made by this function")
						continue
					}
					r.bad(fmt.Sprintf("%s|send gcTrigger#%d", c.fnName(fn), n), c.posStr(instrPos(x)), "blocking send on gcTrigger: a consumer marking a tracker while the collector waits for its table lock deadlocks")
				}
			case *ssa.Select:
				for _, st := range x.States {
					if st.Dir != types.SendOnly {
						continue
					}
					if _, ok := loadOfField(st.Chan, "dbState", "gcTrigger"); !ok {
						continue
					}
					n++
					key := fmt.Sprintf("%s|send gcTrigger#%d", c.fnName(fn), n)
					r.check(!x.Blocking, key, c.posStr(instrPos(x)), "send on gcTrigger is a select case with default", "the select sending on gcTrigger has no default: it blocks when a trigger is already pending (deadlock against the collector waiting for the marker's table)")
				}
			}
		}
	}
	if n == 0 {
		r.anchorMissing("send on dbState.gcTrigger")
	}
}

// naturalLoop returns the blocks of the natural loop(s) with header hdr: hdr
// plus every block that reaches a back edge source without passing hdr.
func naturalLoop(hdr *ssa.BasicBlock) map[*ssa.BasicBlock]bool {
	in := map[*ssa.BasicBlock]bool{hdr: true}
	var st []*ssa.BasicBlock
	for _, p := range hdr.Preds {
		if hdr.Dominates(p) {
			st = append(st, p)
		}
	}
	for len(st) > 0 {
		b := st[len(st)-1]
		st = st[:len(st)-1]
		if in[b] {
			continue
		}
		in[b] = true
		st = append(st, b.Preds...)
	}
	return in
}

// reachesWithinIteration: `to` can execute after `from` without an intervening
// dualIterator.next() call, i.e. within the same loop iteration.
func reachesWithinIteration(from, to ssa.Instruction) bool {
	avoid := map[ssa.Instruction]bool{}
	for _, ia := range allInstrs(from.Parent()) {
		if call, ok := ia.In.(*ssa.Call); ok {
			if f := staticCallee(call); f != nil && f.Name() == "next" && recvTypeName(f) == "dualIterator" {
				avoid[call] = true
			}
		}
	}
	return reachesAvoiding(from, to, avoid)
}
