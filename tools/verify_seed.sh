#!/bin/bash
# usage: verify_seed.sh <seed dir containing patch.diff demo_test.go meta.json> <name>
# Confirms in a scratch worktree: patch applies+builds, full suite passes with it,
# demo FAILS with it and PASSES without it. Prints one RESULT line.
S=$(realpath "$1"); NAME=$2
export GOFLAGS=-mod=mod GOPROXY=off; unset GOWORK
W=/tmp/sv/wt-$NAME
LOG=/tmp/sv/log-$NAME.txt
mkdir -p /tmp/sv; rm -rf "$W"; : > "$LOG"
git -C /repo worktree add -q --detach "$W" HEAD >>"$LOG" 2>&1 || { echo "RESULT $NAME worktree-failed"; exit 1; }
cleanup() { git -C /repo worktree remove --force "$W" >/dev/null 2>&1; rm -rf "$W"; }
trap cleanup EXIT
cd "$W"
git apply "$S/patch.diff" >>"$LOG" 2>&1 || { echo "RESULT $NAME patch-does-not-apply"; exit 1; }
go build ./... >>"$LOG" 2>&1 || { echo "RESULT $NAME does-not-build"; exit 1; }
# demo placement by package clause
PKG=$(grep -m1 '^package ' "$S/demo_test.go" | awk '{print $2}')
case "$PKG" in
  statedb|statedb_test) DIR=. ;;
  part|part_test) DIR=part ;;
  lpm|lpm_test) DIR=lpm ;;
  reconciler|reconciler_test) DIR=reconciler ;;
  index|index_test) DIR=index ;;
  internal|internal_test) DIR=internal ;;
  *) echo "RESULT $NAME unknown-demo-package:$PKG"; exit 1 ;;
esac
PAT=$(python3 - "$S" <<'PY'
import json,re,sys
s=sys.argv[1]
txt=open(s+'/meta.json').read()
try:
    m=json.loads(txt); cmd=m.get('demo_cmd','')
    if isinstance(cmd,list): cmd=' '.join(cmd)
except Exception: cmd=''
head=''.join(open(s+'/demo_test.go').readlines()[:12])
for src in (cmd, head):
    r=re.search(r"-run[ =]+'([^']+)'", src) or re.search(r'-run[ =]+"([^"]+)"', src) or re.search(r"-run[ =]+(\S+)", src)
    if r:
        print(r.group(1)); break
else:
    fs=re.findall(r'^func (Test\w+)\(', open(s+'/demo_test.go').read(), re.M)
    print('^('+'|'.join(fs)+')$')
PY
)
# 1. suite with the change (without the demo)
SUITE=fail
for try in 1 2; do
  if go test -vet=off -count=1 ./... >>"$LOG" 2>&1; then SUITE=pass; break; fi
  echo "--- suite attempt $try failed" >>"$LOG"
done
cp "$S/demo_test.go" "$DIR/zz_seed_demo_test.go"
for f in "$S"/demo_*_test.go "$S"/demo/*.go; do [ -f "$f" ] && [ "$f" != "$S/demo_test.go" ] && cp "$f" "$DIR/"; done 2>/dev/null
# 2. demo with the change: must fail
if go test -vet=off -count=1 -run "$PAT" ./$DIR/ >>"$LOG" 2>&1; then WITH=pass; else WITH=fail; fi
# 3. demo without the change: must pass
git apply -R "$S/patch.diff" >>"$LOG" 2>&1 || { echo "RESULT $NAME cannot-revert"; exit 1; }
if go test -vet=off -count=1 -run "$PAT" ./$DIR/ >>"$LOG" 2>&1; then WITHOUT=pass; else WITHOUT=fail; fi
echo "RESULT $NAME suite_with_change=$SUITE demo_with_change=$WITH demo_without_change=$WITHOUT dir=$DIR run=$PAT"
