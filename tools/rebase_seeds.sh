#!/bin/bash
# Re-bases kept seeds whose patch no longer applies to /repo HEAD (after fix: commits) with a
# 3-way merge in a scratch worktree; keeps the delivery as patch.orig.diff. Prints what happened.
W=/tmp/sv/wt-rebase; rm -rf $W; git -C /repo worktree prune
git -C /repo worktree add -q --detach $W HEAD || exit 1
trap 'git -C /repo worktree remove --force $W >/dev/null 2>&1' EXIT
cd $W
for d in /verif/seeded/*/; do
  id=$(basename $d)
  if git apply --check $d/patch.diff 2>/dev/null; then continue; fi
  git checkout -q -- . ; git clean -fdq
  base=$d/patch.diff; [ -f $d/patch.orig.diff ] && base=$d/patch.orig.diff
  if git apply --3way $base >/dev/null 2>&1 && ! git diff --name-only --diff-filter=U | grep -q .; then
    git reset -q; git diff > /tmp/sv/rebased-$id.diff
    if [ -s /tmp/sv/rebased-$id.diff ]; then
      [ -f $d/patch.orig.diff ] || cp $d/patch.diff $d/patch.orig.diff
      cp /tmp/sv/rebased-$id.diff $d/patch.diff; echo "REBASED $id"
    else echo "EMPTY $id"; fi
  else
    echo "CONFLICT $id"
  fi
  git checkout -q -- . 2>/dev/null; git reset -q --hard HEAD; git clean -fdq
done
