#!/usr/bin/env python3
"""Builds /verif/seeded/<id>/ from the agents' deliveries, my own verification
results (/tmp/sv/results.txt) and the checker's verdict on each patch."""
import json, os, re, shutil, subprocess, sys
SRC='/tmp/seedout'; RES='/tmp/sv/results.txt'; DST='/verif/seeded'
res={}
for l in open(RES):
    m=re.match(r'RESULT (\S+) (.*)', l.strip())
    if not m: continue
    kv=dict(x.split('=',1) for x in m.group(2).split() if '=' in x)
    res[m.group(1)]=(kv, m.group(2))
matrix={}
cur=None
for l in open('/tmp/sv/matrix_final.txt'):
    l=l.rstrip('\n')
    if l.startswith('=== '):
        cur=l[4:].replace('/','-'); matrix[cur]=[]
    elif cur and l.strip():
        matrix[cur].append(l.split()[1] if len(l.split())>1 else l)
os.makedirs(DST, exist_ok=True)
kept=0
summary=[]
for name,(kv,raw) in sorted(res.items()):
    d=os.path.join(SRC, name.replace('-','/',1))
    ok = kv.get('suite_with_change')=='pass' and kv.get('demo_with_change')=='fail' and kv.get('demo_without_change')=='pass'
    if not ok:
        summary.append((name,'REJECTED',raw)); continue
    out=os.path.join(DST,name); os.makedirs(out, exist_ok=True)
    shutil.copy(os.path.join(d,'patch.diff'), out)
    shutil.copy(os.path.join(d,'demo_test.go'), out)
    try: am=json.load(open(os.path.join(d,'meta.json')))
    except Exception: am={}
    prop=name.split('-')[0]
    caught=sorted(set(k.split('|')[0] for k in matrix.get(name,[])))
    meta={
      "id": name,
      "property": am.get("property", prop),
      "summary": am.get("summary"),
      "needs_to_manifest": am.get("needs_to_manifest"),
      "files": am.get("files"),
      "origin": "written by an independent sub-agent that saw only the property text and a scratch worktree of /repo (fixed tree, HEAD 1576e23)",
      "demo": {"place_in": kv.get('dir'), "run": "go test -vet=off -count=1 -run '%s' ./%s/" % (kv.get('run'), kv.get('dir'))},
      "verified_by_me": {
        "how": "tools/verify_seed.sh in a scratch git worktree of /repo: git apply patch; go build ./...; full suite `go test -vet=off -count=1 ./...` (one retry allowed for the known flaky reconciler/TestMultipleReconcilersPerModuleMetrics); demo with the patch; git apply -R; demo without the patch",
        "suite_passes_with_change": True, "demo_fails_with_change": True, "demo_passes_without_change": True},
      "checker": {
        "how": "tools/try_patch.sh: scratch copy of /repo with the patch applied, `sdbcheck dump all --bad`",
        "caught": bool(caught), "rules": caught, "obligations": matrix.get(name,[])},
    }
    json.dump(meta, open(os.path.join(out,'meta.json'),'w'), indent=1)
    kept+=1
    summary.append((name,'kept',','.join(caught) or 'MISSED'))
for s in summary: print(*s)
print('kept',kept,'of',len(res))
