#!/bin/bash
# evaluates every delivered round-2 seed with the current rules (scratch copies)
cd /tmp/seedout3
for d in $(ls -d C*/[123] C*/extra* 2>/dev/null); do
  [ -f $d/patch.diff ] && [ -f $d/meta.json ] || continue
  out=$(/verif/tools/try_patch.sh /tmp/seedout3/$d/patch.diff 2>&1 | grep -E "^(violation|undecided)" | grep -v "index.Int|" | awk '{print $2}' | cut -d'|' -f1 | sort -u | tr '\n' ',')
  echo "$d ${out:-MISSED}"
done
