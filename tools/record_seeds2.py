#!/usr/bin/env python3
"""Round 2: builds /verif/seeded/r2-<Cxx>-<k>/ from the agents' deliveries (/tmp/seedout2),
my own verification results (/tmp/sv/results2.txt, results2b.txt) and the checker's verdict."""
import json, os, re, shutil, subprocess
SRC='/tmp/seedout2'; DST='/verif/seeded'
res={}
for f in ('/tmp/sv/results2.txt','/tmp/sv/results2b.txt'):
    for l in open(f):
        m=re.match(r'RESULT r2b?-(C\d\d)-(\d) (.*)', l.strip())
        if not m: continue
        kv=dict(x.split('=',1) for x in m.group(3).split() if '=' in x)
        res[(m.group(1),m.group(2))]=(kv,m.group(3))   # later file wins (re-verification)
first={}  # superseded: first-pass verdicts were fixed by hand from the session log
for l in open('/tmp/sv/matrix2_first.txt'):
    p=l.split()
    if len(p)>=2: first[p[0]]=p[1]
kept=0
for (prop,k),(kv,raw) in sorted(res.items()):
    name='r2-%s-%s'%(prop,k); d=os.path.join(SRC,prop,k)
    ok = kv.get('suite_with_change')=='pass' and kv.get('demo_with_change')=='fail' and kv.get('demo_without_change')=='pass'
    if not ok:
        print(name,'REJECTED',raw); continue
    out=os.path.join(DST,name); os.makedirs(out, exist_ok=True)
    shutil.copy(os.path.join(d,'patch.diff'), out); shutil.copy(os.path.join(d,'demo_test.go'), out)
    try: am=json.load(open(os.path.join(d,'meta.json')))
    except Exception: am={}
    o=subprocess.run(['/verif/tools/try_patch.sh',os.path.join(d,'patch.diff'),'all'],capture_output=True,text=True).stdout
    obs=[l.split()[1] for l in o.splitlines() if re.match(r'^(violation|undecided) ',l) and 'index.Int|' not in l]
    rules=sorted(set(x.split('|')[0] for x in obs))
    meta={
      "id": name, "round": 2, "property": prop,
      "summary": am.get("summary"), "needs_to_manifest": am.get("needs_to_manifest"), "files": am.get("files"),
      "origin": "written by an independent sub-agent that saw only the property text and a scratch worktree of /repo (fixed tree, HEAD 1576e23)",
      "demo": {"place_in": kv.get('dir'), "run": "go test -vet=off -count=1 -run '%s' ./%s/" % (kv.get('run'), kv.get('dir'))},
      "verified_by_me": {
        "how": "tools/verify_seed.sh in a scratch git worktree of /repo: git apply patch; go build ./...; full suite `go test -vet=off -count=1 ./...` (one retry allowed for load-induced flakes); demo with the patch; git apply -R; demo without the patch",
        "suite_passes_with_change": True, "demo_fails_with_change": True, "demo_passes_without_change": True},
      "checker": {
        "how": "tools/try_patch.sh: scratch copy of /repo with the patch applied, `sdbcheck dump all --bad`",
        "first_pass_before_strengthening": first.get('%s/%s'%(prop,k)),
        "caught": bool(obs), "rules": rules, "obligations": obs},
    }
    json.dump(meta, open(os.path.join(out,'meta.json'),'w'), indent=1)
    kept+=1; print(name,'kept',','.join(rules) or 'MISSED')
print('kept',kept,'of',len(res))
