#!/bin/sh
# usage: try_patch.sh <patch.diff> [rule|all]   - analyse a scratch copy of /repo with the patch applied
set -e
P=$(realpath "$1"); R=${2:-all}
T=$(mktemp -d /tmp/sdbtry-XXXXXX)
trap 'rm -rf "$T"' EXIT
(cd /repo && tar --exclude=.git -cf - .) | tar -xf - -C "$T"
(cd "$T" && patch -p1 -s < "$P")
/verif/bin/sdbcheck dump "$R" --bad --repo "$T" | grep -v "^# [A-Z-]*: [0-9]* obligations (floor [0-9]*)$"
