#!/usr/bin/env python3
"""record_round.py <round> <delivery dir> <missed csv> <results file>...
Builds /verif/seeded/r<round>-<Cxx>-<k>/ from the agents' deliveries, my own verification
results and the checker's verdict. <missed csv>: ids (Cxx/k) the first pass missed."""
import json, os, re, shutil, subprocess, sys
rnd, SRC, missed = sys.argv[1], sys.argv[2], set(x for x in sys.argv[3].split(',') if x)
DST='/verif/seeded'
head=subprocess.run(['git','-C','/repo','rev-parse','--short','HEAD'],capture_output=True,text=True).stdout.strip()
res={}
for f in sys.argv[4:]:
    for l in open(f):
        m=re.match(r'RESULT \S*?(C\d\d)-(\d) (.*)', l.strip())
        if not m: continue
        kv=dict(x.split('=',1) for x in m.group(3).split() if '=' in x)
        res[(m.group(1),m.group(2))]=(kv,m.group(3))   # later lines win (re-verification)
# obligations that are already not ok on the unchanged tree (known findings) are not the seed's
base=set()
try:
    bj=json.loads(subprocess.run(['/verif/bin/sdbcheck','dump','all','--bad','--json'],capture_output=True,text=True).stdout)
    base=set(o['key'] for o in bj)
except Exception: pass
kept=0
for (prop,k),(kv,raw) in sorted(res.items()):
    name='r%s-%s-%s'%(rnd,prop,k); d=os.path.join(SRC,prop,k)
    ok = kv.get('suite_with_change')=='pass' and kv.get('demo_with_change')=='fail' and kv.get('demo_without_change')=='pass'
    if not ok:
        print(name,'REJECTED',raw); continue
    out=os.path.join(DST,name); os.makedirs(out, exist_ok=True)
    for fn in ('patch.diff','demo_test.go','patch.orig.diff'):
        if os.path.exists(os.path.join(d,fn)): shutil.copy(os.path.join(d,fn), out)
    try: am=json.load(open(os.path.join(d,'meta.json')))
    except Exception: am={}
    o=subprocess.run(['/verif/tools/try_patch.sh',os.path.join(d,'patch.diff'),'all'],capture_output=True,text=True).stdout
    obs=[l.split()[1] for l in o.splitlines() if re.match(r'^(violation|undecided) ',l) and 'index.Int|' not in l]
    obs=[x for x in obs if not any(b.startswith(x) for b in base)]
    rules=sorted(set(x.split('|')[0] for x in obs))
    meta={
      "id": name, "round": int(rnd), "property": prop,
      "summary": am.get("summary"), "needs_to_manifest": am.get("needs_to_manifest"), "files": am.get("files"),
      "origin": "written by an independent sub-agent that saw only the property text and a scratch worktree of /repo",
      "rebased": os.path.exists(os.path.join(d,'patch.orig.diff')) and "the delivered patch (patch.orig.diff) no longer applied after a later fix: commit to the same function; the same edit was re-made by hand on the repaired code" or None,
      "demo": {"place_in": kv.get('dir'), "run": "go test -vet=off -count=1 -run '%s' ./%s/" % (kv.get('run'), kv.get('dir'))},
      "verified_by_me": {
        "how": "tools/verify_seed.sh in a scratch git worktree of /repo: git apply patch; go build ./...; full suite `go test -vet=off -count=1 ./...` (one retry allowed for load-induced flakes); demo with the patch; git apply -R; demo without the patch",
        "suite_passes_with_change": True, "demo_fails_with_change": True, "demo_passes_without_change": True},
      "checker": {
        "how": "tools/try_patch.sh: scratch copy of /repo (HEAD %s) with the patch applied, `sdbcheck dump all --bad`" % head,
        "first_pass_before_strengthening": 'missed' if '%s/%s'%(prop,k) in missed else 'reported',
        "caught": bool(obs), "rules": rules, "obligations": obs},
    }
    json.dump(meta, open(os.path.join(out,'meta.json'),'w'), indent=1)
    kept+=1; print(name,'kept',','.join(rules) or 'MISSED')
print('kept',kept,'of',len(res))
