#!/bin/bash
# For every kept seed: apply it to /repo, run the quick check of the property it breaks, undo.
cd /verif
git -C /repo diff --quiet || { echo "/repo is dirty"; exit 1; }
for d in seeded/*/; do
  id=$(basename $d); prop=${id%%-*}
  git -C /repo apply /verif/${d}patch.diff || { echo "$id APPLY-FAILED"; continue; }
  out=$(bin/sdbcheck check $prop --no-evidence 2>&1); rc=$?
  git -C /repo checkout -- . 
  n=$(echo "$out" | grep -c "^VIOLATION property=$prop")
  rules=$(echo "$out" | grep -E "^  (VIOLATION|UNDECIDED) " | awk '{print $2}' | cut -d'|' -f1 | sort -u | tr '\n' ',')
  echo "$id exit=$rc violations=$n rules=$rules"
done
git -C /repo status --short | head
