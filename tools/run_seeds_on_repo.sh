#!/bin/bash
# For every kept seed (optionally only ids starting with $1): apply it to /repo, run the quick
# check of the property it breaks, undo straight afterwards.
cd /verif
git -C /repo diff --quiet || { echo "/repo is dirty"; exit 1; }
for d in seeded/${1}*/; do
  id=$(basename $d); prop=$(python3 -c "import json,sys; print(json.load(open(sys.argv[1]))['property'])" ${d}meta.json)
  git -C /repo apply /verif/${d}patch.diff || { echo "$id APPLY-FAILED"; continue; }
  out=$(bin/sdbcheck check $prop --no-evidence 2>&1); rc=$?
  git -C /repo checkout -- . 
  n=$(echo "$out" | grep -c "^VIOLATION property=$prop")
  rules=$(echo "$out" | grep -E "^  (VIOLATION|UNDECIDED) " | awk '{print $2}' | cut -d'|' -f1 | sort -u | tr '\n' ',')
  echo "$id prop=$prop exit=$rc violations=$n rules=$rules"
done
git -C /repo status --short | head
