#!/usr/bin/env python3
"""Generates /verif/MANIFEST.json. Edit CLAIMED / NOT_APPLICABLE here and re-run."""
import json, os, subprocess

V = os.path.dirname(os.path.abspath(__file__))

# property -> (technique, level text, design ref)
CLAIMED = {
    "C01": ("static analysis: ownership/effect analysis over go/ssa (origin classification of every write into persistent types, reaching stores, parameter summaries over the module call graph) plus constructor, freeze/epoch and read-path reachability rules",
            "Decides that no memory reachable from a published root/tree/trie is written in place anywhere in the module, that the constructors licensing in-place mutation copy, that iterators handed out inside a transaction freeze it, that the write transaction works on private copies, and that the read API reaches no persistent write and no blocking operation. A necessary condition of snapshot isolation on every path; not that queries compute the right result.",
            "DESIGN.md §3.1, §4 C01"),
    "C02": ("static analysis: CFG ordering (dominance) rules on Commit, who-may-call/who-may-close rules, call-graph reachability from Abort, ownership analysis of persistent writes",
            "Decides the structure atomic commit rests on: one root Store per Commit inside the root-mutex region with the Load it merges, index commits before it, notifications/closes/lock release after it, the returned snapshot is the stored one; nothing reachable from Abort publishes, commits, notifies, closes or writes persistent memory; watch channels of committed state are closed only by the commit-time notify path. Necessary, not sufficient: visibility under real schedules is assumed from the single atomic store.",
            "DESIGN.md §3.2, §4 C02"),
    "C03": ("static analysis: guard-dominance rule and path-sensitive accounting (bounded path enumeration over the SSA CFG of writeTxnState.modify/delete)",
            "Decides that closed-transaction and unlocked-table guards dominate all effects and return the documented errors, that every error return is preceded by compensation of the primary index and restoration of the revision counter, that no other index is touched on a rejected path, and that the rejection test is an exact inequality on the guard revision. Does not decide return values or map equivalence.",
            "DESIGN.md §3.2, §4 C03"),
    "C04": ("static analysis: index-family coverage (dominance), sibling agreement of the two reindex implementations, nil-sentinel contradiction rule, KeySet guard agreement, exhaustive check of the extracted escape table",
            "Decides that every successful write path updates every index family, that the two reindex implementations remove exactly old keys not in the new set with one key transform, that key presence is never encoded as nil-ness, and that the non-unique key encoding is injective and order-preserving. Does not decide exactness/order of query results or de-duplication.",
            "DESIGN.md §3.2, §3.6, §4 C04"),
    "C05": ("static analysis: CFG dominance / lock-region / slice data-dependence rules over go/ssa of DB.WriteTxn, Commit, registerTable; who-may-call rule for the table locks",
            "Decides the structural half of writer serialisation: root loaded after the table locks, publish inside the root-mutex region merging unlocked positions and the length of the current root, locks released only after publish and notify, and only by Commit/Abort. A necessary condition, decided on every path of the anchored functions; not the mutex itself nor fairness.",
            "DESIGN.md §3.2, §4 C05"),
    "C06": ("static analysis: pairing rule on node replacement sites (retain-or-queue), frozen registration multiset, CFG ordering in Commit/Notify, channel-origin dataflow for the ...Watch APIs, who-may-close rule",
            "Decides store-before-notify-before-unlock, that every replaced radix node's channel is retained or queued, that Notify closes everything queued and the root channel iff dirty, that query APIs hand out the index's own channel from the same reader call, and that nothing before Commit's notify phase can close a committed channel. Not decided: that the right node's channel is chosen for a query.",
            "DESIGN.md §3.3, §4 C06"),
    "C07": ("static analysis: who-may-call rule on the transaction handed to the change iterator, single-origin dataflow in refresh, shape/ordering rule on Next and its delivering closure",
            "Decides that both sources and the watch come from the committed root of the transaction passed in (one entry, one index), that the cursors are +1, that Next has exactly its two return shapes, and that the delivering closure advances cursors and marks the tracker with exactly the revision of the change it yields, before yielding, clearing the iterator only when exhausted. Not decided: the merge order itself, convergence.",
            "DESIGN.md §3.4, §4 C07"),
    "C08": ("static analysis: control-dependence rules on graveyard writes and the collector's scan (facts on dominating branch edges), reference allow-list for the graveyard index constants, non-blocking-send rule",
            "Decides that deletions go to both graveyard indexes exactly under the transaction's own tracker test with the deletion's revision, that re-insert cleans both, that the collector lowers its watermark to every tracker's revision and collects only at or below it with a deletion-revision re-check, and that graveyard indexes are unreachable from query/count paths. Not decided: liveness (eventual collection).",
            "DESIGN.md §3.4, §4 C08"),
    "C09": ("static analysis: path-sensitive revision accounting in modify/delete, dataflow of the stored object's revision, big-endian rule",
            "Decides exactly-one-increment on success and zero net change on rejection/no-op, that the stored object (and the merge adapter's result) carries the post-increment revision, that Abort cannot touch it and that revision keys are big-endian. Not decided: monotonicity across commits as a history property.",
            "DESIGN.md §3.2, §4 C09"),
    "C10": ("static analysis: interprocedural lock-class graph, critical-section effect rule, sorted-acquire and de-duplication shape rules, Commit-or-Abort pairing on go/cfg, blocking-effect reachability",
            "Decides an acyclic lock-class graph with the table locks outermost and only taken by the sorted, de-duplicated bulk acquire; non-blocking, user-code-free root/leaf mutex regions; library transactions that always finish and never nest; WriteTxn/Commit/Abort blocking only on the table locks and the two short mutexes; readers reaching no blocking operation; non-blocking GC triggers; the collector locking only tables with dead objects. Not decided: misuse by callers, starvation.",
            "DESIGN.md §3.5, §4 C10"),
    "C11": ("static analysis: ownership analysis restricted to package part, constructor/epoch/freeze rules, transaction-retirement and recycled-transaction reset rules, node-conversion completeness",
            "Decides the persistence half: no published radix node is written in place, owning constructors copy and stamp, iterators/clones freeze, committed trees start a new epoch, a committed transaction object is retired, a recycled one is fully reset, node conversions keep the leaf. Not decided: ordered-map semantics.",
            "DESIGN.md §3.1, §4 C11"),
    "C12": ("static analysis: retain-or-queue pairing on node replacement, frozen registration multiset, Notify/Commit shape rules, who-may-close rule, recycled-transaction reset",
            "Decides that every replaced/dropped node's channel is retained or queued, that Notify closes all queued channels and the root channel exactly when dirty, that dirty is set before any change, that close() on node channels happens only in Notify, and that nothing queued by an abandoned transaction leaks into the next. Not decided: which channel a lookup returns.",
            "DESIGN.md §3.3, §4 C12"),
    "C13": ("static analysis: ownership analysis on package lpm and lpmEntry, descent-loop sibling rule (facts on branch edges) over all LPM traversal loops",
            "Decides the persistence half (no in-place write to published trie nodes/entries, clone gate and stamp, freeze, epoch) and that every descent loop steps into a child only after a full match of the node's prefix and never hands out a node the query diverged from. Not decided: longest-match/ordering exactness otherwise.",
            "DESIGN.md §3.1, §3.6, §4 C13"),
    "C14": ("static analysis: error-flow (value must reach a sink on the non-nil edge), must-pass-through in the round loop bodies, re-arm pairing in the retry queue",
            "Decides that no operation error is dropped, every failure is queued and refreshed, a popped retry is processed, a consumed change is processed unless filtered, change/success clears, and queue-head changes re-arm the timer. Not decided: convergence within bounded periods.",
            "DESIGN.md §3.7, §4 C14"),
    "C15": ("static analysis: allow-list of table writes in package reconciler with control-dependence on their guards, clone provenance of status writes, gate dominance for Prune",
            "Decides that the reconciler writes the table only by CompareAndSwap on the reconciled revision or guarded Inserts re-checked in the same write transaction, never on un-cloned objects, never deletes; that a pending status carries a fresh id; that Prune is gated on initialization and given the full snapshot. Not decided: that the guards compare the right values under every interleaving.",
            "DESIGN.md §3.7, §4 C15"),
    "C16": ("static analysis: bookkeeping shape rules on the retry queue (field refresh, both heaps maintained, cap, watermark source, progress source)",
            "Decides only the structural clauses the pacing contract rests on: capped backoff, retry state forgotten on change/success, item refreshed and re-positioned in both heaps on every failure, low watermark = oldest failed revision and 0 only when empty, progress published from what run() processed. All duration clauses (minimum backoff, non-shrinking waits) are NOT decided.",
            "DESIGN.md §4 C16"),
    "C17": ("static analysis: ownership analysis on Map/Set values, path-sensitive migration-before-insert rule, transaction-retirement rule",
            "Decides that the singleton pair is never mutated in place, that the singleton enters the tree before caller pairs (or the key differs), and that no Map/Set operation keeps using a transaction it published. Not decided: model exactness, representation switches, JSON/YAML round trip.",
            "DESIGN.md §3.6, §4 C17"),
    "C18": ("static analysis: abstract interpretation of appendEncode/encodedLength over all 256 byte values and exhaustive check of the extracted code table; dataflow of the key layout; big-endian and no-narrowing rules",
            "Decides (exhaustively on the extracted table) that the escape code is prefix-free, order-preserving and avoids the minimal separator, that encodedLength agrees, that the composite layout and accessor offsets agree, that integer encoders are big-endian and do not narrow, and that address encoders normalise. Not decided: LPM key masking arithmetic, keys of 64 KiB and more.",
            "DESIGN.md §3.6, §4 C18"),
    "C19": ("static analysis: ownership analysis of the initialization record, CFG ordering of the init-channel close in Commit, shape rule on record creation/clearing, abort reachability",
            "Decides copy-on-write of the pending list and record, a new channel only when the table has none, record cleared only when pending is empty with its channel queued, channel closed only by Commit after the root Store, Abort unable to affect it. Not decided: 'exactly when every initializer is done' as a history property.",
            "DESIGN.md §3.2, §4 C19"),
    "C20": ("static analysis: dataflow/shape rule on WatchSet.Wait (lock region, deferred removal over the captured result variable, select provenance of appended channels)",
            "Decides removed = returned, returned only from channels reflect.Select chose among cases built from the set on this call, the mutex held throughout, nil result paired with the context's error. Not decided: settle-time behaviour.",
            "DESIGN.md §3.6, §4 C20"),
}

NOT_APPLICABLE = {
}

PENDING_REASON = "check not built yet in this round (planned rules: DESIGN.md §4); not claimed until its rules run clean on the unchanged tree"

def main():
    props = [json.loads(l)["id"] for l in open(os.path.join(V, "properties.jsonl"))]
    try:
        hooks_commits = []
    except Exception:
        hooks_commits = []
    checks = []
    # what each check decides is taken from the checker itself (checker/props.go), so the manifest
    # cannot drift from the rules that run
    try:
        decided = json.loads(subprocess.run([os.path.join(V, "bin", "sdbcheck"), "props"], capture_output=True, text=True, check=True).stdout)
    except Exception:
        decided = {}
    for pid in props:
        if pid not in CLAIMED:
            continue
        tech, text, ref = CLAIMED[pid]
        if pid in decided:
            d = decided[pid]
            text = "Structural necessary conditions decided from the source (not the behaviour itself). DECIDES: " + d["decides"] + " NOT DECIDED: " + d["not_decided"] + " Rules: " + ", ".join(d["rules"]) + "."
            tech = tech + "; finite-domain abstract interpretation of small decision procedures where the property depends on them (byte code table, two-way merge); sibling/contradiction rules; all over go/types + go/ssa of the current tree"
        checks.append({
            "property_id": pid,
            "quick_cmd": f"bin/check {pid} --tier quick",
            "thorough_cmd": f"bin/check {pid} --tier thorough",
            "evidence_file": f"/verif/evidence/{pid}.json",
            "replay_cmd_template": "bin/check --replay {path}",
            "engine": "sdbcheck",
            "level_claimed": {"category": "other", "text": text, "design_ref": ref},
            "level_note": "Trusted base: go/types + go/ssa (x/tools v0.50.0); Go memory model and sync/atomic; the frozen classification of standard-library calls (T-STDLIB); user callbacks excluded. Decides a necessary structural condition of the property, not the behaviour itself.",
            "technique": tech,
        })
    na = []
    for pid in props:
        if pid in CLAIMED:
            continue
        na.append({"property_id": pid, "reason": NOT_APPLICABLE.get(pid, PENDING_REASON)})
    m = {
        "version": 1,
        "setup_cmd": "./setup.sh",
        "hooks": {
            "guard": "verif",
            "enable": "go build -tags verif ./... (no hook is needed: the checker analyses source; the thorough tier also loads the tree with -tags verif)",
            "baseline_off_cmd": "cd /repo && GOFLAGS=-mod=mod go test -vet=off -count=1 -timeout 25m ./...",
            "source_commits": [],
            "add_only": True,
        },
        "engines": [{
            "name": "sdbcheck",
            "path": "checker/",
            "serves_properties": sorted(CLAIMED.keys()),
            "kind_free_text": "repository-specific static analyser (go/packages + go/types + go/ssa + own module call graph); rules enumerate obligations keyed rule|function|construct; replay re-decides one obligation",
        }],
        "checks": checks,
        "not_applicable": na,
        "notes": "All checks are static analysis of /repo's current working tree; nothing from statedb is executed. Exit 1 + VIOLATION line for violations, undecided obligations, unresolved anchors and below-floor rule counts. Known findings: known_findings.json.",
    }
    with open(os.path.join(V, "MANIFEST.json"), "w") as f:
        json.dump(m, f, indent=1)
        f.write("\n")
    print("claimed:", sorted(CLAIMED.keys()))

if __name__ == "__main__":
    main()
