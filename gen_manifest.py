#!/usr/bin/env python3
"""Generates /verif/MANIFEST.json. Edit CLAIMED / NOT_APPLICABLE here and re-run."""
import json, os, subprocess

V = os.path.dirname(os.path.abspath(__file__))

# property -> (technique, level text, design ref)
CLAIMED = {
    "C01": ("static analysis: ownership/effect analysis over go/ssa (origin classification of every write into persistent types, reaching stores, parameter summaries over the module call graph) plus constructor, freeze/epoch and read-path reachability rules",
            "Decides that no memory reachable from a published root/tree/trie is written in place anywhere in the module, that the constructors licensing in-place mutation copy, that iterators handed out inside a transaction freeze it, that the write transaction works on private copies, and that the read API reaches no persistent write and no blocking operation. A necessary condition of snapshot isolation on every path; not that queries compute the right result.",
            "DESIGN.md §3.1, §4 C01"),
    "C05": ("static analysis: CFG dominance / lock-region / slice data-dependence rules over go/ssa of DB.WriteTxn, Commit, registerTable; who-may-call rule for the table locks",
            "Decides the structural half of writer serialisation: root loaded after the table locks, publish inside the root-mutex region merging unlocked positions and the length of the current root, locks released only after publish and notify, and only by Commit/Abort. A necessary condition, decided on every path of the anchored functions; not the mutex itself nor fairness.",
            "DESIGN.md §3.2, §4 C05"),
}

NOT_APPLICABLE = {
    "C16": "every clause is a bound on run-time durations, monotonicity of computed waits, or a relation between revisions observed at run time; no structural necessary condition beyond timer re-arming, which is decided under C14",
}

PENDING_REASON = "check not built yet in this round (planned rules: DESIGN.md §4); not claimed until its rules run clean on the unchanged tree"

def main():
    props = [json.loads(l)["id"] for l in open(os.path.join(V, "properties.jsonl"))]
    try:
        hooks_commits = []
    except Exception:
        hooks_commits = []
    checks = []
    for pid in props:
        if pid not in CLAIMED:
            continue
        tech, text, ref = CLAIMED[pid]
        checks.append({
            "property_id": pid,
            "quick_cmd": f"bin/check {pid} --tier quick",
            "thorough_cmd": f"bin/check {pid} --tier thorough",
            "evidence_file": f"/verif/evidence/{pid}.json",
            "replay_cmd_template": "bin/check --replay {path}",
            "engine": "sdbcheck",
            "level_claimed": {"category": "other", "text": text, "design_ref": ref},
            "level_note": "Trusted base: go/types + go/ssa (x/tools v0.50.0); Go memory model and sync/atomic; the frozen classification of standard-library calls (T-STDLIB); user callbacks excluded. Decides a necessary structural condition of the property, not the behaviour itself.",
            "technique": tech,
        })
    na = []
    for pid in props:
        if pid in CLAIMED:
            continue
        na.append({"property_id": pid, "reason": NOT_APPLICABLE.get(pid, PENDING_REASON)})
    m = {
        "version": 1,
        "setup_cmd": "./setup.sh",
        "hooks": {
            "guard": "verif",
            "enable": "go build -tags verif ./... (no hook is needed: the checker analyses source; the thorough tier also loads the tree with -tags verif)",
            "baseline_off_cmd": "cd /repo && GOFLAGS=-mod=mod go test -vet=off -count=1 -timeout 25m ./...",
            "source_commits": [],
            "add_only": True,
        },
        "engines": [{
            "name": "sdbcheck",
            "path": "checker/",
            "serves_properties": sorted(CLAIMED.keys()),
            "kind_free_text": "repository-specific static analyser (go/packages + go/types + go/ssa + own module call graph); rules enumerate obligations keyed rule|function|construct; replay re-decides one obligation",
        }],
        "checks": checks,
        "not_applicable": na,
        "notes": "All checks are static analysis of /repo's current working tree; nothing from statedb is executed. Exit 1 + VIOLATION line for violations, undecided obligations, unresolved anchors and below-floor rule counts. Known findings: known_findings.json.",
    }
    with open(os.path.join(V, "MANIFEST.json"), "w") as f:
        json.dump(m, f, indent=1)
        f.write("\n")
    print("claimed:", sorted(CLAIMED.keys()))

if __name__ == "__main__":
    main()
