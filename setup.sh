#!/bin/sh
# Builds the checker from the sources under /verif/checker, offline.
set -e
cd "$(dirname "$0")"
V=$(pwd)
mkdir -p "$V/bin/goshim" "$V/evidence" "$V/replay"
GOBIN_NEW=/opt/veriftools/go1.26.8/bin/go
[ -x "$GOBIN_NEW" ] || GOBIN_NEW=$(command -v go1.26.8)
ln -sf "$GOBIN_NEW" "$V/bin/goshim/go"
cd "$V/checker"
env -u GOWORK PATH="$V/bin/goshim:$PATH" GOTOOLCHAIN=local GOFLAGS=-mod=mod GOPROXY=off \
  go build -o "$V/bin/sdbcheck" .
echo "built $V/bin/sdbcheck"
